// Package choice is the single source of decisions of a simulated run.
//
// Every draw comes from one PRNG stream initialised from one integer, is
// labelled, and is appended to the decision trace. In replay mode a recorded
// trace is fed back; when the trace is exhausted every draw returns 0, which
// every generator treats as the simplest choice (no delay, no fault, first
// candidate, shortest workload). Logging never draws.
package choice

import (
	"encoding/binary"
	"hash/fnv"
	"math/rand/v2"
)

// Decision is one recorded draw.
type Decision struct {
	N int `json:"n"`
	V int `json:"v"`
}

// Source is the decision stream of one run.
type Source struct {
	seed     uint64
	rng      *rand.Rand
	replay   []int
	replayOn bool
	pos      int
	trace    []int
	ns       []int
	labels   []string
	keepLbl  bool
	hash     uint64
	ndraws   int
}

// SplitMix derives the seed of run i of a property from the batch seed.
func SplitMix(seed uint64, salt string, i uint64) uint64 {
	h := fnv.New64a()
	var b [8]byte
	binary.LittleEndian.PutUint64(b[:], seed)
	h.Write(b[:])
	h.Write([]byte(salt))
	binary.LittleEndian.PutUint64(b[:], i)
	h.Write(b[:])
	z := h.Sum64() + 0x9e3779b97f4a7c15
	z = (z ^ (z >> 30)) * 0xbf58476d1ce4e5b9
	z = (z ^ (z >> 27)) * 0x94d049bb133111eb
	return z ^ (z >> 31)
}

// New returns a PRNG-driven source.
func New(seed uint64) *Source {
	return &Source{
		seed: seed,
		rng:  rand.New(rand.NewPCG(seed, 0x5eed5eed5eed5eed)),
	}
}

// Replay returns a source that feeds the given trace back and then zeros.
func Replay(trace []int) *Source {
	return &Source{replay: trace, replayOn: true}
}

// KeepLabels makes the source remember the label of each draw (debugging and
// evidence samples only).
func (s *Source) KeepLabels() { s.keepLbl = true }

// Seed returns the seed (0 in replay mode).
func (s *Source) Seed() uint64 { return s.seed }

// Intn draws a value in [0,n). n<=1 returns 0 without consuming a draw.
func (s *Source) Intn(n int, label string) int {
	if n <= 1 {
		return 0
	}
	var v int
	if s.replayOn {
		if s.pos < len(s.replay) {
			v = s.replay[s.pos]
			s.pos++
			if v < 0 {
				v = 0
			}
			if v >= n {
				v %= n
			}
		}
	} else {
		v = s.rng.IntN(n)
	}
	s.trace = append(s.trace, v)
	s.ns = append(s.ns, n)
	if s.keepLbl {
		s.labels = append(s.labels, label)
	}
	s.ndraws++
	s.hash = (s.hash ^ uint64(v+1)) * 0x100000001b3
	return v
}

// Bool draws true with probability num/den.
func (s *Source) Bool(num, den int, label string) bool {
	if num <= 0 {
		return false
	}
	if num >= den {
		return true
	}
	// value 0 must be "false" (the simplest choice), so map the top of the
	// range to true.
	return s.Intn(den, label) >= den-num
}

// Range draws in [lo,hi].
func (s *Source) Range(lo, hi int, label string) int {
	if hi <= lo {
		return lo
	}
	return lo + s.Intn(hi-lo+1, label)
}

// Pick draws an index with the given non-negative weights; index 0 is simplest.
func (s *Source) Pick(weights []int, label string) int {
	total := 0
	for _, w := range weights {
		total += w
	}
	if total <= 0 {
		return 0
	}
	v := s.Intn(total, label)
	for i, w := range weights {
		if v < w {
			return i
		}
		v -= w
	}
	return len(weights) - 1
}

// Perm returns a permutation of [0,n) (identity when every draw is 0).
func (s *Source) Perm(n int, label string) []int {
	p := make([]int, n)
	for i := range p {
		p[i] = i
	}
	for i := 0; i < n-1; i++ {
		j := i + s.Intn(n-i, label)
		p[i], p[j] = p[j], p[i]
	}
	return p
}

// Bytes fills a fresh slice with drawn bytes (not recorded one by one: the
// content is derived from one recorded draw).
func (s *Source) Bytes(n int, label string) []byte {
	x := uint64(s.Intn(1<<30, label))*2654435761 + 12345
	b := make([]byte, n)
	for i := range b {
		x ^= x << 13
		x ^= x >> 7
		x ^= x << 17
		b[i] = byte(x>>24) | 1
	}
	return b
}

// Ns returns the range of every draw made so far.
func (s *Source) Ns() []int { return s.ns }

// IsReplay reports whether the source replays a recorded trace.
func (s *Source) IsReplay() bool { return s.replayOn }

// Input returns the trace being replayed (nil for a PRNG source).
func (s *Source) Input() []int { return s.replay }

// Adopt makes the source look as if it had drawn the given decisions: used
// when the run itself happened in a child process that reported them.
func (s *Source) Adopt(trace []int) {
	s.trace = append([]int{}, trace...)
	s.ndraws = len(trace)
	s.hash = 0
	for _, v := range trace {
		s.hash = (s.hash ^ uint64(v+1)) * 0x100000001b3
	}
}

// Trace returns the decisions drawn so far.
func (s *Source) Trace() []int { return s.trace }

// Labels returns the labels of the decisions (only with KeepLabels).
func (s *Source) Labels() []string { return s.labels }

// Draws returns the number of draws.
func (s *Source) Draws() int { return s.ndraws }

// Digest is a digest of the drawn values.
func (s *Source) Digest() uint64 { return s.hash }
