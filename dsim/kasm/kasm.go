// Package kasm is a mini-assembler for the GCN3 instruction subset the
// verification kernels need. It produces insts.KernelCodeObject values
// directly (Driver.EnqueueLaunchKernel takes the struct; no ELF is needed).
// Every emitted instruction is checked at build time by decoding it with the
// repository's own disassembler and comparing the printed text with the
// intended instruction (Program.SelfCheck).
package kasm

import (
	"encoding/binary"
	"fmt"
	"strings"

	"github.com/sarchlab/mgpusim/v4/amd/insts"
)

// Operand encodings (9-bit source field).
type Src uint32

// S is scalar register n.
func S(n int) Src { return Src(n) }

// V is vector register n.
func V(n int) Src { return Src(256 + n) }

// Imm is an inline constant (-16..64); other values need Program.Lit.
func Imm(v int32) Src {
	switch {
	case v >= 0 && v <= 64:
		return Src(128 + v)
	case v < 0 && v >= -16:
		return Src(192 - v)
	}
	panic(fmt.Sprintf("kasm: %d is not an inline constant", v))
}

// Special registers.
const (
	VCC    Src = 106
	EXEC   Src = 126
	M0     Src = 124
	litSrc Src = 255
)

type inst struct {
	words []uint32
	text  string // expected disassembly (prefix match on the mnemonic and operands)
	label string // branch target label (for SOPP branches)
	op    uint32
}

// Program is a sequence of instructions with labels.
type Program struct {
	insts  []inst
	labels map[string]int // label -> instruction index
	lits   map[Src]int32
	err    error
	// Gfx9 switches memory and wait-count instructions to the GFX9/CDNA3
	// forms (global_* with SADDR off, wide vmcnt field).
	Gfx9 bool
}

// New creates an empty program.
func New() *Program { return &Program{labels: map[string]int{}, lits: map[Src]int32{}} }

// Lit returns a source operand carrying a 32-bit literal.
func (p *Program) Lit(v uint32) Src {
	if v <= 64 {
		return Src(128 + v)
	}
	s := Src(0x40000000 | Src(len(p.lits)))
	p.lits[s] = int32(v)
	return s
}

func (p *Program) isLit(s Src) (uint32, bool) {
	if v, ok := p.lits[s]; ok {
		return uint32(v), true
	}
	return 0, false
}

// enc returns the 9-bit field and an optional literal dword.
func (p *Program) enc(s Src) (uint32, []uint32) {
	if v, ok := p.isLit(s); ok {
		return 255, []uint32{v}
	}
	return uint32(s) & 0x1ff, nil
}

func (p *Program) emit(text string, words ...uint32) {
	p.insts = append(p.insts, inst{words: words, text: text})
}

// Label marks the position of the next instruction.
func (p *Program) Label(name string) { p.labels[name] = len(p.insts) }

func regName(s Src) string {
	switch {
	case s == VCC:
		return "vcc"
	case s == EXEC:
		return "exec"
	case s == M0:
		return "m0"
	case s < 128:
		return fmt.Sprintf("s%d", s)
	case s >= 256 && s < 512:
		return fmt.Sprintf("v%d", s-256)
	}
	return ""
}

// ---- scalar memory ----

func (p *Program) smem(op uint32, name string, sdata int, sbase int, offset uint32) {
	w0 := 0xC0000000 | op<<18 | 1<<17 | uint32(sdata)<<6 | uint32(sbase>>1)
	p.emit(name, w0, offset)
}

// SLoadDword loads 1 dword: s[sdata] = mem[s[sbase:sbase+1] + offset].
func (p *Program) SLoadDword(sdata, sbase int, offset uint32) {
	p.smem(0, "s_load_dword ", sdata, sbase, offset)
}

// SLoadDwordX2 loads 2 dwords.
func (p *Program) SLoadDwordX2(sdata, sbase int, offset uint32) {
	p.smem(1, "s_load_dwordx2 ", sdata, sbase, offset)
}

// SLoadDwordX4 loads 4 dwords.
func (p *Program) SLoadDwordX4(sdata, sbase int, offset uint32) {
	p.smem(2, "s_load_dwordx4 ", sdata, sbase, offset)
}

// ---- SOPP ----

func (p *Program) sopp(op uint32, name string, simm uint32) {
	p.emit(name, 0xBF800000|op<<16|simm&0xffff)
}

// SEndpgm ends the wavefront.
func (p *Program) SEndpgm() { p.sopp(1, "s_endpgm", 0) }

// SBarrier synchronises the work-group.
func (p *Program) SBarrier() { p.sopp(10, "s_barrier", 0) }

// SNop idles n+1 cycles.
func (p *Program) SNop(n uint32) { p.sopp(0, "s_nop", n) }

// SWaitcnt waits until the counters are at or below the given values
// (vmcnt 0..15, lgkmcnt 0..15; pass 15 for "do not wait").
func (p *Program) SWaitcnt(vmcnt, lgkmcnt uint32) {
	if p.Gfx9 {
		if vmcnt == 15 {
			vmcnt = 63 // "do not wait" in the wider GFX9 field
		}
		p.SWaitcntGfx9(vmcnt, lgkmcnt)
		return
	}
	p.sopp(12, "s_waitcnt", vmcnt&0xf|7<<4|(lgkmcnt&0xf)<<8)
}

func (p *Program) branch(op uint32, name, label string) {
	p.insts = append(p.insts, inst{words: []uint32{0xBF800000 | op<<16}, text: name, label: label, op: op})
}

// SBranch jumps to label.
func (p *Program) SBranch(label string) { p.branch(2, "s_branch", label) }

// SCbranchScc0 jumps if SCC == 0.
func (p *Program) SCbranchScc0(label string) { p.branch(4, "s_cbranch_scc0", label) }

// SCbranchScc1 jumps if SCC == 1.
func (p *Program) SCbranchScc1(label string) { p.branch(5, "s_cbranch_scc1", label) }

// SCbranchExecz jumps if EXEC == 0.
func (p *Program) SCbranchExecz(label string) { p.branch(8, "s_cbranch_execz", label) }

// SCbranchVccz jumps if VCC == 0.
func (p *Program) SCbranchVccz(label string) { p.branch(6, "s_cbranch_vccz", label) }

// ---- SOP1 / SOP2 / SOPC ----

func (p *Program) sop1(op uint32, name string, sdst, ssrc0 Src) {
	f, lit := p.enc(ssrc0)
	p.emit(name+" "+regName(sdst), append([]uint32{0xBE800000 | (uint32(sdst)&0x7f)<<16 | op<<8 | f&0xff}, lit...)...)
}

// SMovB32 : sdst = ssrc.
func (p *Program) SMovB32(sdst, ssrc Src) { p.sop1(0, "s_mov_b32", sdst, ssrc) }

// SMovB64 : sdst pair = ssrc pair.
func (p *Program) SMovB64(sdst, ssrc Src) { p.sop1wide(1, "s_mov_b64", sdst, ssrc) }

// SAndSaveexecB64 : sdst = EXEC; EXEC = ssrc & EXEC.
func (p *Program) SAndSaveexecB64(sdst, ssrc Src) { p.sop1wide(32, "s_and_saveexec_b64", sdst, ssrc) }

// sop1wide is sop1 for 64-bit operands (register pairs print as s[n:n+1]).
func (p *Program) sop1wide(op uint32, name string, sdst, ssrc0 Src) {
	f, lit := p.enc(ssrc0)
	p.emit(name+" ", append([]uint32{0xBE800000 | (uint32(sdst)&0x7f)<<16 | op<<8 | f&0xff}, lit...)...)
}

func (p *Program) sop2(op uint32, name string, sdst, ssrc0, ssrc1 Src) {
	f0, l0 := p.enc(ssrc0)
	f1, l1 := p.enc(ssrc1)
	lit := append(l0, l1...)
	if len(lit) > 1 {
		p.err = fmt.Errorf("%s: two literals", name)
	}
	p.emit(name+" "+regName(sdst), append([]uint32{0x80000000 | op<<23 | (uint32(sdst)&0x7f)<<16 | (f1&0xff)<<8 | f0&0xff}, lit...)...)
}

// SAddU32 : sdst = a + b.
func (p *Program) SAddU32(sdst, a, b Src) { p.sop2(0, "s_add_u32", sdst, a, b) }

// SAddcU32 : sdst = a + b + SCC.
func (p *Program) SAddcU32(sdst, a, b Src) { p.sop2(4, "s_addc_u32", sdst, a, b) }

// SSubU32 : sdst = a - b.
func (p *Program) SSubU32(sdst, a, b Src) { p.sop2(1, "s_sub_u32", sdst, a, b) }

// SMulI32 : sdst = a * b.
func (p *Program) SMulI32(sdst, a, b Src) { p.sop2(36, "s_mul_i32", sdst, a, b) }

// SLshlB32 : sdst = a << b.
func (p *Program) SLshlB32(sdst, a, b Src) { p.sop2(28, "s_lshl_b32", sdst, a, b) }

// SAndB32 : sdst = a & b.
func (p *Program) SAndB32(sdst, a, b Src) { p.sop2(12, "s_and_b32", sdst, a, b) }

func (p *Program) sopc(op uint32, name string, a, b Src) {
	f0, l0 := p.enc(a)
	f1, l1 := p.enc(b)
	p.emit(name, append([]uint32{0xBF000000 | op<<16 | (f1&0xff)<<8 | f0&0xff}, append(l0, l1...)...)...)
}

// SCmpEqU32 : SCC = a == b.
func (p *Program) SCmpEqU32(a, b Src) { p.sopc(6, "s_cmp_eq_u32", a, b) }

// SCmpLgU32 : SCC = a != b.
func (p *Program) SCmpLgU32(a, b Src) { p.sopc(7, "s_cmp_lg_u32", a, b) }

// SCmpLtU32 : SCC = a < b.
func (p *Program) SCmpLtU32(a, b Src) { p.sopc(10, "s_cmp_lt_u32", a, b) }

// ---- VOP1 / VOP2 / VOPC / VOP3 ----

// VMovB32 : vdst = src.
func (p *Program) VMovB32(vdst int, src Src) {
	f, lit := p.enc(src)
	p.emit(fmt.Sprintf("v_mov_b32_e32 v%d", vdst), append([]uint32{0x7E000000 | uint32(vdst)<<17 | 1<<9 | f}, lit...)...)
}

func (p *Program) vop2(op uint32, name string, vdst int, src0 Src, vsrc1 int) {
	f, lit := p.enc(src0)
	p.emit(fmt.Sprintf("%s v%d", name, vdst), append([]uint32{op<<25 | uint32(vdst)<<17 | uint32(vsrc1)<<9 | f}, lit...)...)
}

// VAddU32 : vdst = src0 + v[vsrc1] (carry out to VCC).
func (p *Program) VAddU32(vdst int, src0 Src, vsrc1 int) {
	p.vop2(25, "v_add_u32_e32", vdst, src0, vsrc1)
}

// VAddcU32 : vdst = src0 + v[vsrc1] + VCC (carry in/out VCC).
func (p *Program) VAddcU32(vdst int, src0 Src, vsrc1 int) {
	p.vop2(28, "v_addc_u32_e32", vdst, src0, vsrc1)
}

// VSubU32 : vdst = src0 - v[vsrc1].
func (p *Program) VSubU32(vdst int, src0 Src, vsrc1 int) {
	p.vop2(26, "v_sub_u32_e32", vdst, src0, vsrc1)
}

// VLshlrevB32 : vdst = v[vsrc1] << src0.
func (p *Program) VLshlrevB32(vdst int, src0 Src, vsrc1 int) {
	p.vop2(18, "v_lshlrev_b32_e32", vdst, src0, vsrc1)
}

// VLshrrevB32 : vdst = v[vsrc1] >> src0.
func (p *Program) VLshrrevB32(vdst int, src0 Src, vsrc1 int) {
	p.vop2(16, "v_lshrrev_b32_e32", vdst, src0, vsrc1)
}

// VAndB32 : vdst = src0 & v[vsrc1].
func (p *Program) VAndB32(vdst int, src0 Src, vsrc1 int) {
	p.vop2(19, "v_and_b32_e32", vdst, src0, vsrc1)
}

// VOrB32 : vdst = src0 | v[vsrc1].
func (p *Program) VOrB32(vdst int, src0 Src, vsrc1 int) {
	p.vop2(20, "v_or_b32_e32", vdst, src0, vsrc1)
}

// VXorB32 : vdst = src0 ^ v[vsrc1].
func (p *Program) VXorB32(vdst int, src0 Src, vsrc1 int) {
	p.vop2(21, "v_xor_b32_e32", vdst, src0, vsrc1)
}

// VMulU32U24 : vdst = (src0 & 0xffffff) * (v[vsrc1] & 0xffffff).
func (p *Program) VMulU32U24(vdst int, src0 Src, vsrc1 int) {
	p.vop2(8, "v_mul_u32_u24_e32", vdst, src0, vsrc1)
}

func (p *Program) vopc(op uint32, name string, src0 Src, vsrc1 int) {
	f, lit := p.enc(src0)
	p.emit(name+" vcc", append([]uint32{0x7C000000 | op<<17 | uint32(vsrc1)<<9 | f}, lit...)...)
}

// VCmpLtU32 : VCC[lane] = src0 < v[vsrc1].
func (p *Program) VCmpLtU32(src0 Src, vsrc1 int) { p.vopc(0xc9, "v_cmp_lt_u32_e32", src0, vsrc1) }

// VCmpGtU32 : VCC[lane] = src0 > v[vsrc1].
func (p *Program) VCmpGtU32(src0 Src, vsrc1 int) { p.vopc(0xcc, "v_cmp_gt_u32_e32", src0, vsrc1) }

// VCmpEqU32 : VCC[lane] = src0 == v[vsrc1].
func (p *Program) VCmpEqU32(src0 Src, vsrc1 int) { p.vopc(0xca, "v_cmp_eq_u32_e32", src0, vsrc1) }

func (p *Program) vop3a(op uint32, name string, vdst int, s0, s1, s2 Src) {
	w0 := 0xD0000000 | op<<16 | uint32(vdst)
	w1 := uint32(s0)&0x1ff | (uint32(s1)&0x1ff)<<9 | (uint32(s2)&0x1ff)<<18
	p.emit(fmt.Sprintf("%s v", name), w0, w1)
}

// VMulLoU32 : vdst = low32(s0 * s1).
func (p *Program) VMulLoU32(vdst int, s0, s1 Src) { p.vop3a(645, "v_mul_lo_u32", vdst, s0, s1, 0) }

// VMadU32U24 : vdst = s0*s1 + s2 (24-bit multiply).
func (p *Program) VMadU32U24(vdst int, s0, s1, s2 Src) {
	p.vop3a(451, "v_mad_u32_u24", vdst, s0, s1, s2)
}

// VLshlrevB64 : v[vdst:vdst+1] = v[s1 pair] << s0.
func (p *Program) VLshlrevB64(vdst int, s0, s1 Src) { p.vop3a(655, "v_lshlrev_b64", vdst, s0, s1, 0) }

// ---- FLAT / DS ----

// FlatLoadDword : v[vdst] = mem[v[addr:addr+1]].
func (p *Program) FlatLoadDword(vdst, addr int) {
	if p.Gfx9 {
		p.GlobalLoadDword(vdst, addr)
		return
	}
	p.emit(fmt.Sprintf("flat_load_dword v%d", vdst), 0xDC000000|20<<18, uint32(vdst)<<24|uint32(addr))
}

// FlatLoad : a FLAT load with the given opcode (16 ubyte, 17 sbyte, 18 ushort, 20 dword, 21 dwordx2, 23 dwordx4).
func (p *Program) FlatLoad(op uint32, vdst, addr int) {
	if p.Gfx9 {
		p.globalLoad(op, vdst, addr)
		return
	}
	name := map[uint32]string{16: "flat_load_ubyte", 17: "flat_load_sbyte", 18: "flat_load_ushort", 20: "flat_load_dword", 21: "flat_load_dwordx2", 23: "flat_load_dwordx4"}[op]
	n := map[uint32]int{21: 2, 23: 4}[op]
	dst := fmt.Sprintf("v%d", vdst)
	if n > 1 {
		dst = fmt.Sprintf("v[%d:%d]", vdst, vdst+n-1)
	}
	p.emit(fmt.Sprintf("%s %s", name, dst), 0xDC000000|op<<18, uint32(vdst)<<24|uint32(addr))
}

// FlatStore : a FLAT store with the given opcode (28 dword, 29 dwordx2, 30 dwordx3, 31 dwordx4).
func (p *Program) FlatStore(op uint32, addr, data int) {
	if p.Gfx9 {
		name := map[uint32]string{28: "global_store_dword", 29: "global_store_dwordx2", 30: "global_store_dwordx3", 31: "global_store_dwordx4"}[op]
		p.emit(name+" v", 0xDC000000|op<<18|0x8000, 0x7f<<16|uint32(data)<<8|uint32(addr))
		return
	}
	name := map[uint32]string{28: "flat_store_dword", 29: "flat_store_dwordx2", 30: "flat_store_dwordx3", 31: "flat_store_dwordx4"}[op]
	p.emit(name+" v", 0xDC000000|op<<18, uint32(data)<<8|uint32(addr))
}

// FlatStoreDword : mem[v[addr:addr+1]] = v[data].
func (p *Program) FlatStoreDword(addr, data int) {
	if p.Gfx9 {
		p.GlobalStoreDword(addr, data)
		return
	}
	p.emit("flat_store_dword v", 0xDC000000|28<<18, uint32(data)<<8|uint32(addr))
}

// DsWriteB32 : lds[v[addr] + offset] = v[data].
func (p *Program) DsWriteB32(addr, data int, offset uint32) {
	p.emit("ds_write_b32 v", 0xD8000000|13<<17|offset&0xffff, uint32(data)<<8|uint32(addr))
}

// DsReadB32 : v[vdst] = lds[v[addr] + offset].
func (p *Program) DsReadB32(vdst, addr int, offset uint32) {
	p.emit(fmt.Sprintf("ds_read_b32 v%d", vdst), 0xD8000000|54<<17|offset&0xffff, uint32(vdst)<<24|uint32(addr))
}

// ---- assembly ----

// Bytes resolves the branches and returns the machine code.
func (p *Program) Bytes() ([]byte, error) {
	if p.err != nil {
		return nil, p.err
	}
	// instruction index -> dword offset
	off := make([]int, len(p.insts)+1)
	for i, in := range p.insts {
		off[i+1] = off[i] + len(in.words)
	}
	var out []byte
	for i, in := range p.insts {
		words := append([]uint32{}, in.words...)
		if in.label != "" {
			t, ok := p.labels[in.label]
			if !ok {
				return nil, fmt.Errorf("undefined label %q", in.label)
			}
			rel := off[t] - off[i+1]
			words[0] = words[0]&0xffff0000 | uint32(uint16(int16(rel)))
		}
		for _, w := range words {
			var b [4]byte
			binary.LittleEndian.PutUint32(b[:], w)
			out = append(out, b[:]...)
		}
	}
	return out, nil
}

// SelfCheck decodes every emitted instruction with the repository's
// disassembler and compares mnemonic (and destination) with what was intended.
func (p *Program) SelfCheck() error {
	code, err := p.Bytes()
	if err != nil {
		return err
	}
	d := insts.NewDisassembler()
	pr := insts.InstPrinter{}
	pc := 0
	for i, in := range p.insts {
		if pc >= len(code) {
			return fmt.Errorf("instruction %d: code exhausted", i)
		}
		dec, err := d.Decode(code[pc:])
		if err != nil {
			return fmt.Errorf("instruction %d (%s): decode error: %v", i, in.text, err)
		}
		if dec.ByteSize != 4*len(in.words) {
			return fmt.Errorf("instruction %d (%s): decoded size %d, emitted %d", i, in.text, dec.ByteSize, 4*len(in.words))
		}
		text := pr.Print(dec)
		if !strings.HasPrefix(text, strings.TrimSpace(in.text)) {
			return fmt.Errorf("instruction %d: intended %q, decodes as %q", i, in.text, text)
		}
		pc += dec.ByteSize
	}
	return nil
}

// Listing returns the disassembly of the program (by the repository's disassembler).
func (p *Program) Listing() []string {
	code, err := p.Bytes()
	if err != nil {
		return []string{err.Error()}
	}
	d := insts.NewDisassembler()
	pr := insts.InstPrinter{}
	var out []string
	for pc := 0; pc < len(code); {
		dec, err := d.Decode(code[pc:])
		if err != nil {
			out = append(out, fmt.Sprintf("%4d: <%v>", pc, err))
			break
		}
		out = append(out, fmt.Sprintf("%4d: %s", pc, pr.Print(dec)))
		pc += dec.ByteSize
	}
	return out
}

// KernelSpec describes the code object to wrap the program in.
type KernelSpec struct {
	KernargBytes uint64
	LDSBytes     uint32
	SGPRs, VGPRs uint16
	WGIDX, WGIDY bool
	WGIDZ        bool
	VGPRWorkItem uint32 // 0: x only, 1: x,y, 2: x,y,z
	V5           bool   // V5-style code object: packed work-item ids in v0
}

// CodeObject wraps the program into a kernel code object whose only user
// SGPRs are the kernarg segment pointer (s[0:1]); the enabled work-group ids
// follow from s2.
func (p *Program) CodeObject(spec KernelSpec) (*insts.KernelCodeObject, error) {
	code, err := p.Bytes()
	if err != nil {
		return nil, err
	}
	if err := p.SelfCheck(); err != nil {
		return nil, err
	}
	meta := &insts.KernelCodeObjectMeta{
		KernargSegmentByteSize:      spec.KernargBytes,
		GroupSegmentByteSize:        spec.LDSBytes,
		EnableSgprKernargSegmentPtr: true,
		WFSgprCount:                 spec.SGPRs,
		WIVgprCount:                 spec.VGPRs,
	}
	rsrc2 := uint32(2) << 1 // user SGPR count = 2
	if spec.WGIDX {
		rsrc2 |= 1 << 7
	}
	if spec.WGIDY {
		rsrc2 |= 1 << 8
	}
	if spec.WGIDZ {
		rsrc2 |= 1 << 9
	}
	rsrc2 |= (spec.VGPRWorkItem & 3) << 11
	meta.ComputePgmRsrc2 = rsrc2
	co := &insts.KernelCodeObject{KernelCodeObjectMeta: meta, Data: code, Version: insts.CodeObjectV3}
	if spec.V5 {
		co.Version = insts.CodeObjectV5
	}
	return co, nil
}

// ---- GFX9 / CDNA3 idioms (used by the V5-style kernels) ----

// VAddU32NoCarry is the GFX9 v_add_u32 (opcode 52, no carry): vdst = src0 + v[vsrc1].
func (p *Program) VAddU32NoCarry(vdst int, src0 Src, vsrc1 int) {
	p.vop2(52, "v_add_u32_e32", vdst, src0, vsrc1)
}

// VLshlAddU64 : v[vdst:vdst+1] = (v[s0 pair] << shift) + s2 pair.
func (p *Program) VLshlAddU64(vdst int, s0, shift, s2 Src) {
	p.vop3a(0x208, "v_lshl_add_u64", vdst, s0, shift, s2)
}

// VBfeU32 : vdst = (s0 >> s1) & ((1<<s2)-1).
func (p *Program) VBfeU32(vdst int, s0, s1, s2 Src) { p.vop3a(0x1c8, "v_bfe_u32", vdst, s0, s1, s2) }

func (p *Program) globalLoad(op uint32, vdst, addr int) {
	name := map[uint32]string{16: "global_load_ubyte", 17: "global_load_sbyte", 18: "global_load_ushort", 20: "global_load_dword", 21: "global_load_dwordx2", 23: "global_load_dwordx4"}[op]
	n := map[uint32]int{21: 2, 23: 4}[op]
	dst := fmt.Sprintf("v%d", vdst)
	if n > 1 {
		dst = fmt.Sprintf("v[%d:%d]", vdst, vdst+n-1)
	}
	p.emit(fmt.Sprintf("%s %s", name, dst), 0xDC000000|op<<18|0x8000, uint32(vdst)<<24|0x7f<<16|uint32(addr))
}

// GlobalLoadDword : v[vdst] = mem[v[addr:addr+1]] (saddr off).
func (p *Program) GlobalLoadDword(vdst, addr int) {
	p.emit(fmt.Sprintf("global_load_dword v%d", vdst), 0xDC000000|20<<18|0x8000, uint32(vdst)<<24|0x7f<<16|uint32(addr))
}

// GlobalStoreDword : mem[v[addr:addr+1]] = v[data] (saddr off).
func (p *Program) GlobalStoreDword(addr, data int) {
	p.emit("global_store_dword v", 0xDC000000|28<<18|0x8000, 0x7f<<16|uint32(data)<<8|uint32(addr))
}

// SWaitcntGfx9 waits with the GFX9 field layout (vmcnt 0..63, lgkmcnt 0..15).
func (p *Program) SWaitcntGfx9(vmcnt, lgkmcnt uint32) {
	p.sopp(12, "s_waitcnt", vmcnt&0xf|7<<4|(lgkmcnt&0xf)<<8|(vmcnt>>4&3)<<14)
}

// ---- more GCN3 instructions (barrier / wait-count kernels) ----

// VCndmaskB32 : vdst = VCC[lane] ? v[vsrc1] : src0.
func (p *Program) VCndmaskB32(vdst int, src0 Src, vsrc1 int) {
	p.vop2(0, "v_cndmask_b32_e32", vdst, src0, vsrc1)
}

// VReadfirstlaneB32 : sdst = v[src] of the first enabled lane.
func (p *Program) VReadfirstlaneB32(sdst int, vsrc int) {
	p.emit(fmt.Sprintf("v_readfirstlane_b32 s%d", sdst), 0x7E000000|uint32(sdst)<<17|2<<9|uint32(256+vsrc))
}

// SLshrB32 : sdst = a >> b.
func (p *Program) SLshrB32(sdst, a, b Src) { p.sop2(30, "s_lshr_b32", sdst, a, b) }

// SOrB32 : sdst = a | b.
func (p *Program) SOrB32(sdst, a, b Src) { p.sop2(14, "s_or_b32", sdst, a, b) }
