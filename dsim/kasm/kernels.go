package kasm

import (
	"fmt"

	"github.com/sarchlab/mgpusim/v4/amd/insts"
)

// IDProbeArgs is the kernel argument struct of the id-probe kernel.
type IDProbeArgs struct {
	Count uint64 // uint32 per padded cell
	IDs   uint64 // 4 x uint32 per padded cell
}

// IDProbe builds the id-probe kernel for one dispatch geometry: every lane
// computes its global coordinates from the hardware-initialised work-group id
// SGPRs and work-item id VGPRs exactly as compiled code does, then performs
// load; +1; store on count[cell] and stores (packed work-group id, v0, v1, v2)
// to ids[cell], where cell = (gz*py + gy)*px + gx in an array padded beyond
// the grid (so a lane enabled outside the grid lands in a padding cell).
// v5 selects the V5 convention (work-item ids packed into v0).
func IDProbe(wg [3]int, px, py int, v5 bool) (*insts.KernelCodeObject, []string, error) {
	if v5 {
		return idProbeV5(wg, px, py)
	}
	p := New()
	p.SLoadDwordX4(8, 0, 0) // s[8:9] = count, s[10:11] = ids
	if v5 {
		// unpack v0 = x | y<<10 | z<<20 ; keep the raw value in v14
		p.VMovB32(14, V(0))
		p.VLshrrevB32(1, Imm(10), 14)
		p.VAndB32(1, p.Lit(0x3ff), 1)
		p.VLshrrevB32(2, Imm(20), 14)
		p.VAndB32(0, p.Lit(0x3ff), 14)
	}
	p.SMulI32(S(12), S(2), p.Lit(uint32(wg[0])))
	p.VAddU32(3, S(12), 0) // gx
	p.SMulI32(S(13), S(3), p.Lit(uint32(wg[1])))
	p.VAddU32(4, S(13), 1) // gy
	p.SMulI32(S(14), S(4), p.Lit(uint32(wg[2])))
	p.VAddU32(5, S(14), 2) // gz
	p.SMovB32(S(15), p.Lit(uint32(py)))
	p.VMulLoU32(6, V(5), S(15))
	p.VAddU32(6, V(4), 6)
	p.SMovB32(S(16), p.Lit(uint32(px)))
	p.VMulLoU32(6, V(6), S(16))
	p.VAddU32(6, V(3), 6) // cell
	// count[cell]++
	p.VLshlrevB32(7, Imm(2), 6)
	p.SWaitcnt(15, 0)
	p.VMovB32(9, S(9))
	p.VAddU32(8, S(8), 7)
	p.VAddcU32(9, Imm(0), 9)
	p.FlatLoadDword(10, 8)
	p.SWaitcnt(0, 15)
	p.VAddU32(10, Imm(1), 10)
	p.FlatStoreDword(8, 10)
	// ids[cell] = (wg packed, v0, v1, v2)
	p.VLshlrevB32(7, Imm(4), 6)
	p.VMovB32(12, S(11))
	p.VAddU32(11, S(10), 7)
	p.VAddcU32(12, Imm(0), 12)
	p.SLshlB32(S(17), S(3), Imm(10))
	p.SLshlB32(S(18), S(4), Imm(20))
	p.SAddU32(S(17), S(17), S(2))
	p.SAddU32(S(17), S(17), S(18))
	p.VMovB32(13, S(17))
	p.FlatStoreDword(11, 13)
	for _, r := range []int{0, 1, 2} {
		p.VAddU32(11, Imm(4), 11)
		p.VAddcU32(12, Imm(0), 12)
		src := r
		if v5 && r == 0 {
			src = 14 // the raw packed register
		}
		p.FlatStoreDword(11, src)
	}
	p.SWaitcnt(0, 0)
	p.SEndpgm()
	co, err := p.CodeObject(KernelSpec{KernargBytes: 16, SGPRs: 24, VGPRs: 16, WGIDX: true, WGIDY: true, WGIDZ: true, VGPRWorkItem: 2, V5: v5})
	return co, p.Listing(), err
}

// idProbeV5 is the id probe in the idioms of compiled CDNA3 (gfx942) code:
// work-item ids packed into v0, v_add_u32 without carry, 64-bit addresses by
// v_lshl_add_u64, global loads and stores.
func idProbeV5(wg [3]int, px, py int) (*insts.KernelCodeObject, []string, error) {
	p := New()
	p.SLoadDwordX4(8, 0, 0) // s[8:9] = count, s[10:11] = ids
	p.VMovB32(14, V(0))     // raw packed ids
	p.VBfeU32(1, V(14), Imm(10), Imm(10))
	p.VBfeU32(2, V(14), Imm(20), Imm(10))
	p.VAndB32(0, p.Lit(0x3ff), 14)
	p.SMulI32(S(12), S(2), p.Lit(uint32(wg[0])))
	p.VAddU32NoCarry(3, S(12), 0) // gx
	p.SMulI32(S(13), S(3), p.Lit(uint32(wg[1])))
	p.VAddU32NoCarry(4, S(13), 1) // gy
	p.SMulI32(S(14), S(4), p.Lit(uint32(wg[2])))
	p.VAddU32NoCarry(5, S(14), 2) // gz
	p.SMovB32(S(15), p.Lit(uint32(py)))
	p.VMulLoU32(6, V(5), S(15))
	p.VAddU32NoCarry(6, V(4), 6)
	p.SMovB32(S(16), p.Lit(uint32(px)))
	p.VMulLoU32(6, V(6), S(16))
	p.VAddU32NoCarry(6, V(3), 6) // cell
	p.VMovB32(7, Imm(0))         // v[6:7] = cell as u64
	p.SWaitcntGfx9(63, 0)
	p.VLshlAddU64(8, V(6), Imm(2), S(8)) // &count[cell]
	p.GlobalLoadDword(10, 8)
	p.SWaitcntGfx9(0, 15)
	p.VAddU32NoCarry(10, Imm(1), 10)
	p.GlobalStoreDword(8, 10)
	p.VLshlAddU64(11, V(6), Imm(4), S(10)) // &ids[cell]
	p.SLshlB32(S(17), S(3), Imm(10))
	p.SLshlB32(S(18), S(4), Imm(20))
	p.SAddU32(S(17), S(17), S(2))
	p.SAddU32(S(17), S(17), S(18))
	p.VMovB32(13, S(17))
	p.GlobalStoreDword(11, 13)
	// three more dwords: the raw v0 and the unpacked y, z; addresses +4, +8, +12
	p.VMovB32(16, Imm(1))
	p.VMovB32(17, Imm(0))
	for i, src := range []int{14, 1, 2} {
		p.VMovB32(16, Imm(int32(i+1)))
		p.VLshlAddU64(18, V(16), Imm(2), V(11)) // v[18:19] = (i+1)*4 + v[11:12]
		p.GlobalStoreDword(18, src)
	}
	p.SWaitcntGfx9(0, 0)
	p.SEndpgm()
	co, err := p.CodeObject(KernelSpec{KernargBytes: 16, SGPRs: 24, VGPRs: 24, WGIDX: true, WGIDY: true, WGIDZ: true, VGPRWorkItem: 2, V5: true})
	return co, p.Listing(), err
}

// OutArgs is the argument struct of kernels with one output buffer.
type OutArgs struct {
	Out uint64
}

// BarrierExchange builds a work-group communication kernel: a work-group of
// nWf wavefronts (64*nWf work-items, 1-D) exchanges values through LDS in
// `rounds` rounds. In every round each work-item writes its value to its LDS
// slot, waits at a barrier, reads the slot of the work-item 64*(r+1) positions
// further (a different wavefront when nWf > 1), computes value = read*3 + r+1
// and waits at a second barrier. Finally out[gid] = value. Wavefronts whose
// index bit is set in earlyExit write their slot and end before the first
// barrier. The returned closure computes the expected out array of one
// work-group (exited work-items have no output: they keep the initial fill).
func BarrierExchange(nWf, rounds int, earlyExit uint) (*insts.KernelCodeObject, func(wgID int, out []uint32), []string, error) {
	n := 64 * nWf
	p := New()
	p.SLoadDwordX2(8, 0, 0)                  // s[8:9] = out
	p.SMovB32(M0, Imm(-1))                   // LDS limit
	p.SMulI32(S(12), S(2), p.Lit(uint32(n))) // wgid * n
	p.VAddU32(3, S(12), 0)                   // gid
	p.VMulU32U24(4, Imm(7), 3)
	p.VAddU32(4, Imm(3), 4)     // value = gid*7+3
	p.VLshlrevB32(5, Imm(2), 0) // own LDS address
	p.VMovB32(8, p.Lit(uint32(n)))
	if earlyExit != 0 {
		p.DsWriteB32(5, 4, 0)
		p.SWaitcnt(15, 0)
		p.VReadfirstlaneB32(13, 0)
		p.SLshrB32(S(13), S(13), Imm(6)) // wavefront index
		for w := 0; w < nWf; w++ {
			if earlyExit>>uint(w)&1 == 1 {
				p.SCmpEqU32(S(13), Imm(int32(w)))
				p.SCbranchScc1("exit")
			}
		}
	}
	for r := 0; r < rounds; r++ {
		p.DsWriteB32(5, 4, 0)
		p.SWaitcnt(15, 0)
		p.SBarrier()
		p.VAddU32(6, p.Lit(uint32(64*(r+1)%n)), 0) // partner = lid + shift
		p.VSubU32(7, V(6), 8)                      // partner - n
		p.VCmpLtU32(V(6), 8)                       // vcc = partner < n
		p.VCndmaskB32(6, V(7), 6)                  // vcc ? partner : partner-n
		p.VLshlrevB32(6, Imm(2), 6)
		p.DsReadB32(9, 6, 0)
		p.SWaitcnt(15, 0)
		p.VMulU32U24(4, Imm(3), 9)
		p.VAddU32(4, Imm(int32(r+1)), 4)
		p.SBarrier()
	}
	p.VLshlrevB32(10, Imm(2), 3)
	p.SWaitcnt(15, 0)
	p.VMovB32(12, S(9))
	p.VAddU32(11, S(8), 10)
	p.VAddcU32(12, Imm(0), 12)
	p.FlatStoreDword(11, 4)
	p.SWaitcnt(0, 0)
	p.Label("exit")
	p.SEndpgm()
	co, err := p.CodeObject(KernelSpec{KernargBytes: 8, LDSBytes: uint32(4 * n), SGPRs: 16, VGPRs: 16, WGIDX: true})
	expect := func(wgID int, out []uint32) {
		vals := make([]uint32, n)
		exited := make([]bool, n)
		for i := range vals {
			vals[i] = uint32(wgID*n+i)*7 + 3
			exited[i] = earlyExit>>uint(i/64)&1 == 1
		}
		lds := append([]uint32{}, vals...)
		for r := 0; r < rounds; r++ {
			for i := range vals {
				if !exited[i] {
					lds[i] = vals[i]
				}
			}
			next := make([]uint32, n)
			for i := range vals {
				next[i] = lds[(i+64*(r+1))%n]*3 + uint32(r+1)
			}
			vals = next
		}
		for i := range out {
			if exited[i] {
				out[i] = 0xffffffff // never written
			} else {
				out[i] = vals[i]
			}
		}
	}
	return co, expect, p.Listing(), err
}

// WaitArgs is the argument struct of the wait-count kernel.
type WaitArgs struct {
	In  uint64
	Out uint64
	K   uint32
	N   uint32
}

// WaitCount builds the wait-count kernel: every work-item loads a = in[gid]
// and b = in[gid+N] into registers pre-set to sentinels, waits with
// s_waitcnt vmcnt(1) before using a and vmcnt(0) before using b, loads the
// scalar K with s_load_dword / lgkmcnt(0), and stores out[gid] = a*5 + b + K.
// A wait count that lets a dependant through early makes it read a sentinel.
//
// late > 0 adds a second phase after the store: a scalar register pre-set to a
// sentinel is loaded with N by a late s_load_dword behind s_waitcnt lgkmcnt(0)
// (late = 1: after waiting for the store with vmcnt(0); late = 2: with the
// store still in flight), added, and out[gid] is stored again: a*5 + b + K + N.
// late = 3 ends the program with an un-waited scalar load and the store outstanding.
func WaitCount(wgSize int, late int) (*insts.KernelCodeObject, []string, error) {
	p := New()
	p.SLoadDwordX4(8, 0, 0)   // s[8:9] = in, s[10:11] = out
	p.SLoadDwordX2(20, 0, 16) // s20 = K, s21 = N
	p.SMulI32(S(12), S(2), p.Lit(uint32(wgSize)))
	p.VAddU32(3, S(12), 0) // gid
	p.VMovB32(10, p.Lit(0x00dead00))
	p.VMovB32(11, p.Lit(0x00beef00))
	p.VLshlrevB32(4, Imm(2), 3)
	p.SWaitcnt(15, 0)
	p.VMovB32(6, S(9))
	p.VAddU32(5, S(8), 4)
	p.VAddcU32(6, Imm(0), 6) // &in[gid]
	p.FlatLoadDword(10, 5)
	p.SLshlB32(S(13), S(21), Imm(2))
	p.VAddU32(5, S(13), 5)
	p.VAddcU32(6, Imm(0), 6) // &in[gid+N]
	p.FlatLoadDword(11, 5)
	p.SWaitcnt(1, 15)
	p.VMulU32U24(12, Imm(5), 10)
	p.SWaitcnt(0, 15)
	p.VAddU32(12, V(11), 12)
	p.VAddU32(12, S(20), 12)
	p.VMovB32(8, S(11))
	p.VAddU32(7, S(10), 4)
	p.VAddcU32(8, Imm(0), 8)
	p.FlatStoreDword(7, 12)
	if late == 3 {
		// the program ends with a scalar load and the store still outstanding and no wait count:
		// s_endpgm itself must wait for them before the wavefront's registers are given back
		// (the load reads this work-group's own first input element through the scalar cache, which has
		// never seen it: a cold miss that is still in flight when s_endpgm is reached)
		p.SWaitcnt(0, 15)
		p.SLshlB32(S(13), S(12), Imm(2))
		p.SAddU32(S(14), S(8), S(13))
		p.SAddcU32(S(15), S(9), Imm(0))
		p.SLoadDword(22, 14, 0)
		p.SEndpgm()
		co, err := p.CodeObject(KernelSpec{KernargBytes: 24, SGPRs: 24, VGPRs: 16, WGIDX: true})
		return co, p.Listing(), err
	}
	if late > 0 {
		if late == 1 {
			p.SWaitcnt(0, 15)
		}
		p.SMovB32(S(22), p.Lit(0x00c0de00))
		p.SLoadDword(22, 0, 20)
		p.SWaitcnt(15, 0)
		p.VAddU32(12, S(22), 12)
		p.FlatStoreDword(7, 12)
	}
	p.SWaitcnt(0, 0)
	p.SEndpgm()
	co, err := p.CodeObject(KernelSpec{KernargBytes: 24, SGPRs: 24, VGPRs: 16, WGIDX: true})
	return co, p.Listing(), err
}

// Empty builds a kernel that ends at once.
func Empty() (*insts.KernelCodeObject, error) {
	p := New()
	p.SEndpgm()
	return p.CodeObject(KernelSpec{KernargBytes: 8, SGPRs: 8, VGPRs: 4, WGIDX: true})
}

// Drawer is the decision source of the program generator.
type Drawer interface {
	Intn(n int, label string) int
	Bool(num, den int, label string) bool
}

// RandArgs is the argument struct of generated programs.
type RandArgs struct {
	In  uint64 // 4 dwords per work-item
	Out uint64 // 4 dwords per work-item
	K   [4]uint32
}

// RandomProgram generates a race-free program over the supported instruction
// subset: every work-item loads 4 input dwords (unaligned to cache lines:
// 16-byte records at a drawn byte offset), runs a drawn mix of vector and
// scalar ALU instructions with data-dependent divergence (v_cmp +
// s_and_saveexec + s_cbranch_execz regions), scalar loads of 1/2/4 dwords,
// wait counts, and stores 4 result dwords. Work-items never touch each other's
// records. The result is whatever the emulator computes: the program is meant
// for differential (emulation vs timing) comparison.
func RandomProgram(d Drawer, wgSize int, v5 bool) (*insts.KernelCodeObject, []string, error) {
	p := New()
	p.Gfx9 = v5
	if v5 {
		p.VAndB32(0, p.Lit(0x3ff), 0) // V5 convention: ids packed in v0
	}
	p.SLoadDwordX4(8, 0, 0)   // s[8:9] = in, s[10:11] = out
	p.SLoadDwordX4(20, 0, 16) // s[20:23] = K
	p.SMulI32(S(12), S(2), p.Lit(uint32(wgSize)))
	p.VAddU32(3, S(12), 0)      // gid
	p.VLshlrevB32(4, Imm(4), 3) // record byte offset
	p.SWaitcnt(15, 0)
	p.VMovB32(6, S(9))
	p.VAddU32(5, S(8), 4)
	p.VAddcU32(6, Imm(0), 6) // &in[gid]
	// the 16-byte record is read by a drawn mix of loads into v16..v19:
	// dwords, one x2 / x4 load, or sub-dword loads (unsigned byte, signed
	// byte, unsigned short) at drawn byte offsets inside the record
	switch d.Intn(4, "rp.loadshape") {
	case 0:
		p.FlatLoad(23, 16, 5)
	case 1:
		p.FlatLoad(21, 16, 5)
		p.VAddU32(5, Imm(8), 5)
		p.VAddcU32(6, Imm(0), 6)
		p.FlatLoad(21, 18, 5)
	default:
		at := 0
		for i := 0; i < 4; i++ {
			op := []uint32{20, 20, 16, 17, 18}[d.Intn(5, "rp.loadop")]
			want := 4 * i
			switch op {
			case 16, 17:
				want += d.Intn(4, "rp.byteoff")
			case 18:
				want += 2 * d.Intn(2, "rp.shortoff")
			}
			if want != at {
				p.VAddU32(5, Imm(int32(want-at)), 5)
				p.VAddcU32(6, Imm(0), 6)
				at = want
			}
			p.FlatLoad(op, 16+i, 5)
		}
	}
	// a scalar load of 2 or 4 dwords from the input buffer at a drawn dword offset: with the
	// buffer's drawn skew it regularly straddles a 64-byte line in unequal parts
	scalarData := 0
	if d.Intn(3, "rp.sdata") > 0 {
		off := uint32(4 * d.Intn(64, "rp.sdata.off"))
		if d.Intn(2, "rp.sdata.x4") == 0 {
			p.SLoadDwordX4(28, 8, off)
			scalarData = 4
		} else {
			p.SLoadDwordX2(28, 8, off)
			scalarData = 2
		}
	}
	// loads are consumed in drawn order behind matching wait counts
	p.SWaitcnt(uint32(d.Intn(4, "rp.wait")), 15)
	p.SWaitcnt(0, 15)
	if scalarData > 0 {
		p.SWaitcnt(15, 0)
		for i := 0; i < scalarData; i++ {
			p.VXorB32(16+i, S(28+i), 16+i)
		}
	}
	nOps := 6 + d.Intn(30, "rp.nops")
	region := 0
	open := false
	for i := 0; i < nOps; i++ {
		dst := 16 + d.Intn(4, "rp.dst")
		a := 16 + d.Intn(4, "rp.a")
		var src Src
		switch d.Intn(4, "rp.srckind") {
		case 0:
			src = V(16 + d.Intn(4, "rp.b"))
		case 1:
			src = S(20 + d.Intn(4, "rp.k"))
		case 2:
			src = Imm(int32(d.Intn(64, "rp.imm")))
		case 3:
			src = p.Lit(uint32(d.Intn(1<<20, "rp.lit")) * 2654435761)
		}
		switch d.Intn(12, "rp.op") {
		case 0:
			p.VAddU32(dst, src, a)
		case 1:
			p.VSubU32(dst, src, a)
		case 2:
			p.VAndB32(dst, src, a)
		case 3:
			p.VOrB32(dst, src, a)
		case 4:
			p.VXorB32(dst, src, a)
		case 5:
			p.VLshlrevB32(dst, Imm(int32(d.Intn(31, "rp.sh"))), a)
		case 6:
			p.VLshrrevB32(dst, Imm(int32(d.Intn(31, "rp.sh"))), a)
		case 7:
			p.VMulU32U24(dst, src, a)
		case 8:
			p.VMovB32(dst, src)
		case 9:
			// scalar arithmetic feeding a vector op
			p.SAddU32(S(24), S(20+d.Intn(4, "rp.k")), S(12))
			p.VXorB32(dst, S(24), a)
		case 10:
			// open a divergent region
			if !open {
				p.VCmpLtU32(src, a)
				p.SAndSaveexecB64(S(26), VCC)
				region++
				p.SCbranchExecz(fmt.Sprintf("join%d", region))
				open = true
			}
		case 11:
			// close the divergent region
			if open {
				p.Label(fmt.Sprintf("join%d", region))
				p.SMovB64(EXEC, S(26))
				open = false
			}
		}
	}
	if open {
		p.Label(fmt.Sprintf("join%d", region))
		p.SMovB64(EXEC, S(26))
	}
	p.VMovB32(8, S(11))
	p.VAddU32(7, S(10), 4)
	p.VAddcU32(8, Imm(0), 8) // &out[gid]
	switch d.Intn(3, "rp.storeshape") {
	case 0:
		p.FlatStore(31, 7, 16)
	case 1:
		p.FlatStore(29, 7, 16)
		p.VAddU32(7, Imm(8), 7)
		p.VAddcU32(8, Imm(0), 8)
		p.FlatStore(29, 7, 18)
	default:
		for i := 0; i < 4; i++ {
			p.FlatStoreDword(7, 16+i)
			p.VAddU32(7, Imm(4), 7)
			p.VAddcU32(8, Imm(0), 8)
		}
	}
	// second phase (2 of 3 programs): after the stores, late scalar loads
	// behind s_waitcnt lgkmcnt(0) (with and without waiting for the stores
	// first), a reload of the work-item's own freshly stored record, and a
	// second store of the combined value
	if d.Intn(3, "rp.phase2") > 0 {
		if d.Intn(2, "rp.p2.waitstores") == 0 {
			p.SWaitcnt(0, 15)
		}
		p.SLoadDword(28, 0, uint32(16+4*d.Intn(4, "rp.p2.k")))
		if d.Intn(2, "rp.p2.x2") == 0 {
			p.SLoadDwordX2(30, 0, 16)
			p.SWaitcnt(15, 0)
			p.VXorB32(16, S(30), 16)
			p.VAddU32(16, S(31), 16)
		} else {
			p.SWaitcnt(15, 0)
		}
		p.VXorB32(17, S(28), 17)
		p.VMovB32(8, S(11))
		p.VAddU32(7, S(10), 4)
		p.VAddcU32(8, Imm(0), 8) // &out[gid]
		if d.Intn(2, "rp.p2.reload") == 0 {
			p.SWaitcnt(0, 15)
			p.FlatLoadDword(20, 7) // own record, field 0, as stored above
			p.SWaitcnt(0, 15)
			p.VAddU32(16, V(20), 16)
		}
		p.VAddU32(16, V(17), 16)
		p.FlatStoreDword(7, 16)
	}
	p.SWaitcnt(0, 0)
	p.SEndpgm()
	co, err := p.CodeObject(KernelSpec{KernargBytes: 32, SGPRs: 32, VGPRs: 24, WGIDX: true, V5: v5})
	return co, p.Listing(), err
}

// GatherArgs is the argument struct of the Gather kernel.
type GatherArgs struct {
	In   uint64
	Out  uint64
	Mask uint32 // n-1, n a power of two = number of elements of In and Out
	K    uint32 // odd multiplier
	C    uint32
	Pad  uint32
}

// Gather builds an element-wise kernel whose input accesses reach the whole
// input buffer: out[gid] = (in[(gid*K + C) & Mask] * 3 + in[gid]) ^ gid.
// Every work-item writes only its own output element (race free); with the
// buffers spread over several GPUs most reads and many writes are remote.
func Gather(wgSize int) (*insts.KernelCodeObject, []string, error) {
	return Gather2D(wgSize, 1, 0)
}

// Gather2D is Gather launched on a two-dimensional grid of width `width`
// work-items with work-groups of wgX x wgY work-items:
// gid = (wg_y*wgY + tid_y)*width + wg_x*wgX + tid_x. wgY = 1 gives the
// one-dimensional kernel (width unused).
func Gather2D(wgX, wgY, width int) (*insts.KernelCodeObject, []string, error) {
	p := New()
	p.SLoadDwordX4(8, 0, 0)   // s[8:9] = in, s[10:11] = out
	p.SLoadDwordX4(20, 0, 16) // s20 = mask, s21 = K, s22 = C
	p.SMulI32(S(12), S(2), p.Lit(uint32(wgX)))
	p.VAddU32(3, S(12), 0) // gx (= gid in one dimension)
	if wgY > 1 {
		p.SMulI32(S(13), S(3), p.Lit(uint32(wgY)))
		p.VAddU32(2, S(13), 1) // gy
		p.SMovB32(S(14), p.Lit(uint32(width)))
		p.VMulLoU32(2, V(2), S(14))
		p.VAddU32(3, V(2), 3) // gid
	}
	p.SWaitcnt(15, 0)
	p.VMulLoU32(4, V(3), S(21))
	p.VAddU32(4, S(22), 4)
	p.VAndB32(4, S(20), 4)      // idx
	p.VLshlrevB32(4, Imm(2), 4) // byte offset of in[idx]
	p.VLshlrevB32(9, Imm(2), 3) // byte offset of [gid]
	p.VMovB32(6, S(9))
	p.VAddU32(5, S(8), 4)
	p.VAddcU32(6, Imm(0), 6) // &in[idx]
	p.FlatLoadDword(16, 5)
	p.VMovB32(6, S(9))
	p.VAddU32(5, S(8), 9)
	p.VAddcU32(6, Imm(0), 6) // &in[gid]
	p.FlatLoadDword(17, 5)
	p.VMovB32(8, S(11))
	p.VAddU32(7, S(10), 9)
	p.VAddcU32(8, Imm(0), 8) // &out[gid]
	p.SWaitcnt(0, 15)
	p.VMulU32U24(18, Imm(3), 16) // low 24 bits * 3
	p.VLshrrevB32(19, Imm(24), 16)
	p.VLshlrevB32(19, Imm(24), 19) // high byte kept
	p.VXorB32(18, V(19), 18)
	p.VAddU32(18, V(17), 18)
	p.VXorB32(18, V(3), 18)
	p.FlatStoreDword(7, 18)
	p.SWaitcnt(0, 0)
	p.SEndpgm()
	spec := KernelSpec{KernargBytes: 32, SGPRs: 32, VGPRs: 24, WGIDX: true}
	if wgY > 1 {
		spec.WGIDY, spec.VGPRWorkItem = true, 1
	}
	co, err := p.CodeObject(spec)
	return co, p.Listing(), err
}

// GatherModel computes the expected output of Gather.
func GatherModel(in []uint32, k, c uint32) []uint32 {
	n := uint32(len(in))
	out := make([]uint32, n)
	for g := uint32(0); g < n; g++ {
		v := in[(g*k+c)&(n-1)]
		t := ((v & 0xffffff) * 3) ^ (v >> 24 << 24)
		out[g] = (in[g] + t) ^ g
	}
	return out
}
