package plat

import (
	"encoding/json"
	"fmt"
	"os"
	"testing"

	"github.com/tebeka/atexit"

	"verif/dsim/choice"
	"verif/dsim/harness"
)

// PropFunc is one whole-platform property check: it runs one seeded
// simulation (possibly several bubbles) and returns the verdict.
type PropFunc func(t *testing.T, ch *choice.Source, opt harness.Options, env *Env) harness.Result

// Env is the per-run environment of the child process.
type Env struct {
	Scratch string
	// Params are the free-form parameters of the job.
	Params map[string]string
	job    harness.Job
	ch     *choice.Source
}

// Phase records what the child is doing, so that the parent can classify a
// process exit forced by the code under test (log.Fatal, atexit.Exit).
func (e *Env) Phase(p string) {
	_ = os.WriteFile(e.job.Out+".phase", []byte(p), 0o644)
	e.saveConsumed()
}

// Describe records the description of the run so that it survives a process
// exit forced by the code under test.
func (e *Env) Describe(sample any) {
	b, _ := json.Marshal(sample)
	_ = os.WriteFile(e.job.Out+".sample", b, 0o644)
}

func (e *Env) saveConsumed() {
	b, _ := json.Marshal(e.ch.Trace())
	_ = os.WriteFile(e.job.Out+".consumed", b, 0o644)
}

// Registry maps property ids to their checks.
var Registry = map[string]PropFunc{}

// RunJob is the body of the TestJob test.
func RunJob(t *testing.T) {
	path := os.Getenv("VERIF_JOB")
	if path == "" {
		t.Skip("no VERIF_JOB")
	}
	b, err := os.ReadFile(path)
	if err != nil {
		t.Fatal(err)
	}
	var job harness.Job
	if err := json.Unmarshal(b, &job); err != nil {
		t.Fatal(err)
	}
	f, ok := Registry[job.Property]
	if !ok {
		t.Fatalf("unknown property %s", job.Property)
	}
	var ch *choice.Source
	if job.Replay {
		ch = choice.Replay(job.Trace)
	} else {
		ch = choice.New(job.Seed)
	}
	for _, n := range job.PrefixN {
		ch.Intn(n, "prefix")
	}
	scratch, err := os.MkdirTemp("", "plat-")
	if err != nil {
		t.Fatal(err)
	}
	defer os.RemoveAll(scratch)
	env := &Env{Scratch: scratch, job: job, ch: ch, Params: job.Params}
	atexit.Register(env.saveConsumed)

	res := func() (res harness.Result) {
		defer func() {
			if r := recover(); r != nil {
				if hb, ok := r.(harness.HarnessBugPanic); ok {
					res = harness.Result{HarnessBug: hb.Msg}
					return
				}
				res = harness.Result{HarnessBug: fmt.Sprintf("panic outside the simulation: %v", r)}
			}
		}()
		return f(t, ch, harness.Options{Tier: job.Tier, Verbose: job.Verbose}, env)
	}()
	res.Draws = ch.Draws()
	out, _ := json.Marshal(harness.JobResult{Res: res, Consumed: ch.Trace()})
	if err := os.WriteFile(job.Out, out, 0o644); err != nil {
		t.Fatal(err)
	}
}
