package plat

import (
	"encoding/binary"
	"fmt"
	"math"
	"testing"

	"github.com/sarchlab/mgpusim/v4/amd/driver"

	"verif/dsim/choice"
	"verif/dsim/gosched"
	"verif/dsim/harness"
)

func init() { Registry["C11"] = C11 }

// C11Meta describes the C11 check for evidence.
func C11Meta() harness.Meta {
	return harness.Meta{
		Rule: "each run = one seeded (platform, buffer layout, copy/kernel sequence, event order): real driver + copy middleware + command processor + DMA engine + memory system. Platforms: emulation (direct-storage copy path, 1-4 GPUs), shipped r9nano / mi300a timing platforms with the direct-storage path or the DMA path (1-2 GPUs, write-back L2: dirty caches exist). " +
			"Workload: 1-3 buffers of 1-4 pages, optionally distributed over the GPUs, an initial fill, then 4-12 operations: H2D and D2H on drawn (offset, length) sub-ranges that cross page, cache-line and GPU boundaries, with element types []byte, []uint32, []float32, []int64, and copy kernels (the driver's memcopy kernel) that leave dirty lines, issued synchronously or queued and drained. " +
			"Oracle: a shadow byte array per buffer; every D2H must equal the shadow, the final dump of every buffer (all bytes outside the touched ranges included) must equal the shadow. Same-time events permuted in half of the timing runs. " +
			"non-trivial = a copy crossed a page boundary or a GPU boundary or followed a kernel, and (timing) at least one tie was reordered; distinct = distinct (configuration digest, operation-sequence digest, event-order digest)",
		RealComponents: []string{"amd/driver (API, command queues, both memory-copy middlewares)", "amd/timing/cp (CommandProcessor, DMAEngine)", "emulation platform or shipped r9nano/mi300a timing platform (caches, TLBs, MMU, DRAM, RDMA, PCIe)", "driver memcopy kernel"},
		StubComponents: []string{"engine (SeededEngine)", "goroutine controller with the canonical host schedule"},
		Assumptions: []string{
			"one application thread; operations on one buffer are ordered by one queue (no ordering is promised between queues)",
			"kernel source/destination ranges are 4-byte aligned (the copy kernel moves 4-byte elements)",
		},
		FaultKinds:     []string{"tie_reorder", "config_swarm"},
		ExpectedProbes: []string{"copy_crossed_page", "copy_crossed_gpu", "d2h_after_kernel", "dma_path", "direct_path", "distributed_buffer", "unaligned_offset", "two_gpus_timing", "mi300a", "kernel_in_flight_during_next_op", "buffer_on_unified_device"},
		PerRunTimeoutS: 180,
		ShrinkBudget:   40,
	}
}

type c11cfg struct {
	Spec    Spec
	Buffers []c11buf
	Ops     int
	// BigKernels: copy kernels may cover up to half of a large buffer
	BigKernels bool
}

type c11buf struct {
	Pages      int
	Distribute bool
	// Unified: the buffer lives on a unified device made of all GPUs (the driver spreads its pages; copy
	// kernels on it are unified launches)
	Unified bool
}

// C11 is the property check.
func C11(t *testing.T, ch *choice.Source, opt harness.Options, env *Env) harness.Result {
	c := c11cfg{Ops: 4 + ch.Intn(9, "ops")}
	switch ch.Pick([]int{4, 1, 7}, "platform") {
	case 0:
		c.Spec = Spec{Arch: "gcn3", NumGPUs: 1 + ch.Intn(4, "gpus")}
	case 1:
		c.Spec = Spec{Timing: true, GPUType: "r9nano", NumGPUs: 1 + ch.Intn(2, "gpus"), MagicCopy: true}
	case 2:
		c.Spec = Spec{Timing: true, GPUType: "r9nano", NumGPUs: 1 + ch.Intn(2, "gpus")}
		if ch.Bool(1, 4, "mi300a") {
			c.Spec.GPUType = "mi300a"
			c.Spec.NumGPUs = 1
		}
	}
	c.Spec.Policy = gosched.Canonical
	c.Spec.Burst = 1
	if c.Spec.Timing {
		c.Spec.Permute = ch.Bool(1, 2, "permute")
	}
	var mini *MiniKnobs
	if c.Spec.Timing && !c.Spec.MagicCopy && ch.Bool(1, 2, "mini") {
		// reduced platform: few DRAM banks make a cache flush slow, drawn copy start-up delays move the
		// copy requests relative to the flush they follow
		mini = &MiniKnobs{NumSA: 1 + ch.Intn(2, "sa"), NumCUPerSA: 1 + ch.Intn(2, "cu"), L2KB: 64 << ch.Intn(4, "l2"), MemBanks: 1 << ch.Intn(4, "banks"),
			H2DCycles: 1 + ch.Intn(600, "h2dcycles"), D2HCycles: 1 + ch.Intn(400, "d2hcycles")}
	}
	// C05 mode: the same workload under a host schedule chosen by the parent;
	// the event order is the faithful one (simulated time is an observable)
	c05 := env.Params["c05.sched"] != ""
	if c05 {
		c.Spec.Permute = false
		if c.Spec.Timing && c.Spec.MagicCopy {
			c.Spec.MagicCopy = false // (known finding of C11, not this property's business)
		}
		if env.Params["c05.sched"] != "canonical" {
			var seed uint64
			fmt.Sscanf(env.Params["c05.sched"], "%d", &seed)
			c.Spec.Policy = gosched.Explore
			c.Spec.SchedSeed = seed | 1
			c.Spec.Burst = 1 + int(seed%97)
		}
	}
	var obsTimes []float64
	nb := 1 + ch.Intn(3, "buffers")
	for i := 0; i < nb; i++ {
		bc := c11buf{Pages: 1 + ch.Intn(4, "pages"), Distribute: c.Spec.NumGPUs > 1 && ch.Bool(1, 2, "distribute")}
		if c.Spec.NumGPUs > 1 && !bc.Distribute && ch.Bool(1, 2, "unified") {
			bc.Unified = true
		}
		c.Buffers = append(c.Buffers, bc)
	}
	if c.Spec.Timing && !c.Spec.MagicCopy && c.Spec.NumGPUs == 2 && ch.Bool(1, 3, "bigbuf") {
		// a long-running kernel on one GPU while copies go to the other
		c.Buffers[len(c.Buffers)-1].Pages = 8 + ch.Intn(9, "bigpages")
		c.BigKernels = true
	} else if mini != nil && ch.Bool(1, 3, "bigdirty") {
		// a kernel that leaves many dirty cache lines, so that the flush before the next copy takes long
		c.Buffers[len(c.Buffers)-1].Pages = 16 + ch.Intn(33, "bigdirtypages")
		c.BigKernels = true
	}
	const pageSize = 4096
	cfgDigest := digestString(fmt.Sprintf("%+v", c))
	if mini != nil {
		cfgDigest = digestString(fmt.Sprintf("%+v|%+v", c, *mini))
		c.Spec.Mini = mini // (set after the digest: a pointer must not enter it)
	}

	probes := map[string]uint64{}
	if c.Spec.Timing && !c.Spec.MagicCopy {
		probes["dma_path"] = 1
	} else {
		probes["direct_path"] = 1
	}
	if c.Spec.Timing && c.Spec.NumGPUs > 1 {
		probes["two_gpus_timing"] = 1
	}
	if c.Spec.GPUType == "mi300a" {
		probes["mi300a"] = 1
	}

	var problem *harness.Result
	fail := func(rule, sig, format string, a ...any) {
		if problem == nil {
			problem = &harness.Result{Rule: rule, Signature: sig, Detail: fmt.Sprintf(format, a...)}
		}
	}
	var opsLog []string
	var opDigest uint64 = 1469598103934665603
	logOp := func(s string) {
		opsLog = append(opsLog, s)
		opDigest = (opDigest ^ digestString(s)) * 1099511628211
	}
	interesting := false
	var dataDigest uint64

	// the whole operation sequence is drawn before the simulation starts, so
	// that the decision trace is [configuration, workload][schedule]
	type c11op struct {
		Buf, Kind, Off, Len, EType, Seed, KSrc, KDst int
		Queued, CrossPage                            bool
		// Async: the kernel is enqueued and not drained, so that it is still
		// running (on its GPU) while the following operations execute
		Async bool
	}
	var ops []c11op
	for op := 0; op < c.Ops; op++ {
		o := c11op{Buf: ch.Intn(len(c.Buffers), "buf"), Kind: ch.Pick([]int{4, 4, 3}, "kind")}
		size := c.Buffers[o.Buf].Pages * pageSize
		length := 1 + ch.Intn(300, "len")
		if ch.Bool(1, 4, "long") {
			length = 1 + ch.Intn(size, "len.long")
		}
		off := ch.Intn(size, "off")
		afterKernel := false
		if c.BigKernels && len(ops) > 0 && ops[len(ops)-1].Kind == 2 && !ops[len(ops)-1].Async && ch.Bool(2, 3, "h2d-into-kernel-output") {
			// a host-to-device copy into the tail of what the previous kernel just wrote
			prev := ops[len(ops)-1]
			o.Buf, o.Kind = prev.Buf, 0
			size = c.Buffers[o.Buf].Pages * pageSize
			length = 1 + ch.Intn(300, "len.tail")
			back := 1 + ch.Intn(min(prev.Len, 16384), "tailback")
			off = prev.KDst + prev.Len - back
			afterKernel = true
		}
		if !afterKernel && size > pageSize && ch.Bool(1, 2, "straddle") {
			boundary := pageSize * (1 + ch.Intn(size/pageSize-1, "boundary"))
			off = boundary - 1 - ch.Intn(min(length, 200), "before")
			if off < 0 {
				off = 0
			}
		}
		if off+length > size {
			length = size - off
		}
		o.Queued = ch.Bool(1, 2, "queued")
		if afterKernel {
			o.Queued = false
		}
		switch o.Kind {
		case 0:
			o.EType = ch.Intn(4, "etype")
			esz := []int{1, 4, 4, 8}[o.EType]
			n := max(1, length/esz)
			if off+n*esz > size {
				n = (size - off) / esz
			}
			if n == 0 {
				o.EType, esz, n = 0, 1, 1
			}
			length = n * esz
			o.Seed = ch.Intn(1<<20, "data")
		case 2:
			half := size / 2 / 4 * 4
			kmax := min(256, half/4)
			if c.BigKernels {
				kmax = half / 4
			}
			n := 4 * (1 + ch.Intn(kmax, "kwords"))
			if c.BigKernels && ch.Bool(1, 2, "kfull") {
				n = half
			}
			so := 4 * ch.Intn((half-n)/4+1, "ksrc")
			do := half + 4*ch.Intn((size-half-n)/4+1, "kdst")
			if ch.Bool(1, 2, "kswap") {
				so, do = do, so
			}
			o.KSrc, o.KDst, length, off = so, do, n, do
			o.Async = ch.Bool(1, 2, "kasync")
		}
		o.Off, o.Len = off, length
		o.CrossPage = o.Kind != 2 && off/pageSize != (off+length-1)/pageSize
		ops = append(ops, o)
	}
	everKernel := false
	var stale *staleMon

	var mirror *MetricsMirror
	apps := func(p *Platform) []App {
		if c05 && c.Spec.Timing {
			// C05: "every reported counter": the tracers the reporter attaches under -report-all
			mirror = AttachMetrics(p)
		}
		if c.Spec.Timing {
			stale = attachStaleMon(p)
		}
		return []App{{Name: "app0", Run: func(p *Platform) {
			d := p.Driver
			ctx := d.Init()
			d.SelectGPU(ctx, 1)
			type buf struct {
				ptr     driver.Ptr
				size    int
				shadow  []byte
				q       *driver.CommandQueue
				dirty   bool // a kernel wrote to it since the last D2H
				pending bool // a kernel is enqueued and not drained
			}
			var bufs []*buf
			unifiedDev := 0
			for bi, bc := range c.Buffers {
				home := 1 + bi%c.Spec.NumGPUs
				if bc.Unified {
					if unifiedDev == 0 {
						var ids []int
						for g := 1; g <= c.Spec.NumGPUs; g++ {
							ids = append(ids, g)
						}
						unifiedDev = d.CreateUnifiedGPU(ctx, ids)
					}
					home = unifiedDev
					probes["buffer_on_unified_device"]++
				}
				d.SelectGPU(ctx, home)
				b := &buf{size: bc.Pages * pageSize, q: d.CreateCommandQueue(ctx)}
				b.ptr = d.AllocateMemory(ctx, uint64(b.size))
				if bc.Distribute {
					var ids []int
					for g := 1; g <= c.Spec.NumGPUs; g++ {
						ids = append(ids, g)
					}
					d.Distribute(ctx, b.ptr, uint64(b.size), ids)
					probes["distributed_buffer"]++
					logOp(fmt.Sprintf("buf%d: %d pages distributed over %v", bi, bc.Pages, ids))
				} else {
					logOp(fmt.Sprintf("buf%d: %d pages on device %d (unified: %v)", bi, bc.Pages, home, bc.Unified))
				}
				b.shadow = make([]byte, b.size)
				for i := range b.shadow {
					b.shadow[i] = byte(0x11*(bi+1) + i%7)
				}
				d.MemCopyH2D(ctx, b.ptr, append([]byte{}, b.shadow...))
				bufs = append(bufs, b)
			}
			env.Phase("ops")
			for _, o := range ops {
				if problem != nil {
					break
				}
				obsTimes = append(obsTimes, float64(p.Engine.CurrentTime()))
				b := bufs[o.Buf]
				off, length, queued := o.Off, o.Len, o.Queued
				if b.pending {
					// operations on a buffer with a kernel in flight stay on its queue
					queued = true
				}
				if o.CrossPage {
					probes["copy_crossed_page"]++
					interesting = true
					if c.Buffers[o.Buf].Distribute {
						probes["copy_crossed_gpu"]++
					}
				}
				if off%64 != 0 {
					probes["unaligned_offset"]++
				}
				switch o.Kind {
				case 0: // H2D with a drawn element type
					et := o.EType
					esz := []int{1, 4, 4, 8}[et]
					n := o.Len / esz
					raw := make([]byte, n*esz)
					for i := range raw {
						raw[i] = byte(o.Seed + i*31 + i/7)
					}
					var src any
					switch et {
					case 0:
						src = append([]byte{}, raw...)
					case 1:
						v := make([]uint32, n)
						for i := range v {
							v[i] = binary.LittleEndian.Uint32(raw[i*4:])
						}
						src = v
					case 2:
						v := make([]float32, n)
						for i := range v {
							bits := binary.LittleEndian.Uint32(raw[i*4:])
							if f := math.Float32frombits(bits); f != f { // avoid NaN payload canonicalisation
								bits = 0x3f800000 + uint32(i)
								binary.LittleEndian.PutUint32(raw[i*4:], bits)
							}
							v[i] = math.Float32frombits(binary.LittleEndian.Uint32(raw[i*4:]))
						}
						src = v
					case 3:
						v := make([]int64, n)
						for i := range v {
							v[i] = int64(binary.LittleEndian.Uint64(raw[i*8:]))
						}
						src = v
					}
					logOp(fmt.Sprintf("H2D buf%d off=%d len=%d type=%d queued=%v", o.Buf, off, len(raw), et, queued))
					if queued {
						d.EnqueueMemCopyH2D(b.q, b.ptr+driver.Ptr(off), src)
						d.DrainCommandQueue(b.q)
						b.pending = false
					} else {
						d.MemCopyH2D(ctx, b.ptr+driver.Ptr(off), src)
					}
					copy(b.shadow[off:], raw)
				case 1: // D2H and compare
					out := make([]byte, length)
					logOp(fmt.Sprintf("D2H buf%d off=%d len=%d queued=%v afterKernel=%v", o.Buf, off, length, queued, b.dirty))
					if b.dirty {
						probes["d2h_after_kernel"]++
						interesting = true
					}
					if queued {
						d.EnqueueMemCopyD2H(b.q, out, b.ptr+driver.Ptr(off))
						d.DrainCommandQueue(b.q)
						b.pending = false
					} else {
						d.MemCopyD2H(ctx, out, b.ptr+driver.Ptr(off))
					}
					for i := range out {
						if out[i] != b.shadow[off+i] {
							rule, sig := "R1", "d2h-differs-from-written"
							if b.dirty {
								rule, sig = "R3", "d2h-misses-kernel-write"
							}
							fail(rule, sig, "D2H of buf%d [%d,%d): byte %d is %#x, expected %#x (page offset %d)", o.Buf, off, off+length, off+i, out[i], b.shadow[off+i], (off+i)%pageSize)
							break
						}
					}
					b.dirty = false
				case 2: // copy kernel inside the buffer (4-byte aligned, non-overlapping)
					logOp(fmt.Sprintf("kernel copy buf%d src=%d dst=%d bytes=%d", o.Buf, o.KSrc, o.KDst, o.Len))
					d.EnqueueMemCopyD2D(b.q, b.ptr+driver.Ptr(o.KDst), b.ptr+driver.Ptr(o.KSrc), o.Len)
					if o.Async {
						b.pending = true
						probes["kernel_in_flight_during_next_op"]++
					} else {
						d.DrainCommandQueue(b.q)
						b.pending = false
					}
					copy(b.shadow[o.KDst:o.KDst+o.Len], b.shadow[o.KSrc:o.KSrc+o.Len])
					b.dirty = true
					everKernel = true
				}
			}
			obsTimes = append(obsTimes, float64(p.Engine.CurrentTime()))
			env.Phase("final")
			for _, b := range bufs {
				if b.pending {
					d.DrainCommandQueue(b.q)
					b.pending = false
				}
			}
			for bi, b := range bufs {
				if problem != nil {
					break
				}
				out := make([]byte, b.size)
				d.MemCopyD2H(ctx, out, b.ptr)
				dataDigest = (dataDigest ^ digestString(string(out))) * 1099511628211
				for i := range out {
					if out[i] != b.shadow[i] {
						rule, sig := "R2", "byte-outside-range-or-lost-write"
						if b.dirty {
							rule, sig = "R3", "final-dump-misses-kernel-write"
						}
						fail(rule, sig, "final dump of buf%d: byte %d is %#x, shadow has %#x (page %d offset %d)", bi, i, out[i], b.shadow[i], i/pageSize, i%pageSize)
						break
					}
				}
			}
		}}}
	}

	finish := func(sr ScenarioResult) harness.Result {
		res := harness.Result{
			ConfigDigest: cfgDigest ^ opDigest, OrderDigest: sr.SchedDigest ^ uint64(sr.Events)<<20 ^ uint64(sr.TieReorder),
			Events: sr.Events, SimTime: sr.SimTime,
			Faults: map[string]uint64{"tie_reorder": sr.TieReorder, "config_swarm": 1},
			Probes: probes,
		}
		res.Nontrivial = interesting && (!c.Spec.Permute || sr.TieReorder > 0)
		if opt.Verbose {
			res.Sample = map[string]any{"config": c, "operations": opsLog}
		}
		if c05 {
			counters := map[string]string{}
			if mirror != nil {
				var rows int
				counters, rows = mirror.Digests()
				probes["reported_counter_rows_compared"] = uint64(rows)
			}
			res.Sample = map[string]any{"config": c, "operations": opsLog, "observables": map[string]any{
				"final_time": sr.SimTime, "times_at_api_returns": obsTimes, "events": sr.Events, "data_digest": fmt.Sprint(dataDigest),
				"counters": counters,
			}, "switches": sr.Switches}
		}
		return res
	}
	sr := RunScenario(t, c.Spec, ch, env, apps, nil, func(p *Platform, sr ScenarioResult) {
		res := finish(sr)
		if sr.EventCap {
			res.Inconclusive = "event-cap"
		} else {
			res.Rule, res.Signature = "LIVE", hangClass(p)
			res.Detail = "a copy or kernel never completed: every goroutine is durably blocked, the engine has no event left; pending: " + describePending(p)
			res.Sample = map[string]any{"config": c, "operations": opsLog}
		}
		env.Exit(res)
	})
	res := finish(sr)
	if len(sr.AppPanics) > 0 {
		res.Rule, res.Signature, res.Detail = "PANIC", "app-thread-panic/"+lastField(sr.AppPanics[0], " @ "), sr.AppPanics[0]
	} else if problem != nil {
		res.Rule, res.Signature, res.Detail = problem.Rule, problem.Signature, problem.Detail
		if c.Spec.Timing && c.Spec.MagicCopy && everKernel {
			// the direct-storage copy path on a timing platform bypasses the
			// write-back caches (see known findings)
			res.Signature += "/timing-direct-storage-path-after-kernel"
		} else if cause, ex := stale.knownCause(); cause != "" && everKernel {
			// a copy kernel read a line from a first-level cache that another CU's kernel had rewritten
			// (see known findings): named by observation on the caches' ports
			res.Signature = "data-differs/" + cause
			res.Detail += "; " + ex
		}
	}
	if res.Failed() {
		res.Sample = map[string]any{"config": c, "operations": opsLog}
	}
	return res
}

func indexOf[T comparable](s []T, x T) int {
	for i, v := range s {
		if v == x {
			return i
		}
	}
	return -1
}
