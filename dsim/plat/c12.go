package plat

import (
	"fmt"
	"sync"
	"testing"

	"github.com/sarchlab/akita/v4/sim"
	"github.com/sarchlab/mgpusim/v4/amd/driver"
	"github.com/sarchlab/mgpusim/v4/amd/protocol"

	"verif/dsim/choice"
	"verif/dsim/gosched"
	"verif/dsim/harness"
)

func init() { Registry["C12"] = C12 }

// C12Meta describes the C12 check for evidence.
func C12Meta() harness.Meta {
	return harness.Meta{
		Rule: "each run = one seeded (platform, command sequences, host schedule): the real driver (Driver.Run/runAsync/runEngine, command queues, listeners, both copy middlewares) on an emulation platform (1-2 GPUs; one run in 6 on the shipped R9 Nano timing platform with the DMA copy path) " +
			"with 1-3 application goroutines, each with its own context and 1-2 queues, issuing 1-4 transactions: synchronous copy round trips and queued chains H2D(a,x1) D2D-kernel(b,a) H2D(a,x2) D2D-kernel(c,a) D2H(b) D2H(c) drain, whose results prove FIFO order, visibility of predecessors' effects and that drain returned only after completion. " +
			"All three kinds of goroutine are real and run one at a time inside a synctest bubble; at every yield point (driver hooks, between engine events, engine bursts of drawn length) the controller draws who runs next. Deadlock = every goroutine durably blocked with the workload unfinished. " +
			"non-trivial = at least 2 switches between controlled goroutines and at least one transaction completed; distinct = distinct (configuration digest, schedule digest)",
		RealComponents: []string{"amd/driver.Driver (Run, runAsync, runEngine, DrainCommandQueue, CommandQueue, listeners, Enqueue*, MemCopy*, both memory-copy middlewares)", "emulation platform (emusystem, emugpu, emu.ComputeUnit, command processor) or shipped r9nano timing platform", "akita ports/connections", "shipped memcopy.hsaco kernel"},
		StubComponents: []string{"engine (SeededEngine, faithful order)", "goroutine controller (gosched) inside testing/synctest"},
		Assumptions: []string{
			"yield points are outside critical sections and outside engine events: interleavings inside a mutex-protected section or inside one event are not explored (they are atomic by construction)",
			"one goroutine runs at a time except for the instant in which a channel hand-off makes two goroutines runnable; both then run only to their next yield point",
		},
		FaultKinds:     []string{"host_schedule", "engine_exit_race"},
		ExpectedProbes: []string{"drain_check_to_wait_window_visited", "engine_exited_while_signal_pending", "two_threads_interleaved", "queued_chain_completed", "timing_platform_dma_path", "engine_restarted", "unified_multi_gpu_kernel"},
		PerRunTimeoutS: 120,
		ShrinkBudget:   60,
	}
}

type c12cfg struct {
	Spec     Spec
	Threads  int
	Queues   []int
	Txns     [][]int // per thread: transaction kinds
	Elems    int
	SameCtx  bool
	Unified  []bool // thread launches on a unified multi-GPU device spanning all GPUs
	BurstMax int
}

// C12 is the property check.
func C12(t *testing.T, ch *choice.Source, opt harness.Options, env *Env) harness.Result {
	c := c12cfg{Threads: 1 + ch.Intn(3, "threads"), Elems: 4 + ch.Intn(60, "elems"), BurstMax: 1 + ch.Intn(60, "burst")}
	c.Spec = Spec{Arch: "gcn3", NumGPUs: 1 + ch.Intn(4, "gpus"), Policy: gosched.Explore, Burst: c.BurstMax}
	if ch.Intn(6, "timing") == 5 {
		c.Spec.Timing = true
		c.Spec.GPUType = "r9nano"
		c.Spec.NumGPUs = 1
		c.Spec.Burst = 50 + ch.Intn(400, "burst.timing")
	}
	for i := 0; i < c.Threads; i++ {
		c.Queues = append(c.Queues, 1+ch.Intn(2, "queues"))
		n := 1 + ch.Intn(3, "txns")
		if c.Spec.Timing {
			n = 1 + ch.Intn(2, "txns.timing")
		}
		var kinds []int
		for k := 0; k < n; k++ {
			kinds = append(kinds, ch.Pick([]int{3, 2, 2}, "txn"))
		}
		c.Txns = append(c.Txns, kinds)
		c.Unified = append(c.Unified, c.Spec.NumGPUs >= 2 && ch.Bool(1, 3, "unified"))
	}
	if ch.Bool(1, 3, "bigkernel") {
		// several work-groups per kernel, so that a unified launch really
		// spreads over the GPUs
		c.Elems = 64 * (2 + ch.Intn(10, "elems.wgs"))
	}
	for _, u := range c.Unified {
		if u && ch.Bool(1, 2, "hugekernel") {
			// a unified launch gives every GPU (64 CUs each) work only beyond 64
			// work-groups per preceding GPU
			wgs := 64*(c.Spec.NumGPUs-1) + 1 + ch.Intn(64*c.Spec.NumGPUs*3, "elems.hugewgs")
			if ch.Bool(1, 2, "hugekernel.even") {
				wgs = 64 * c.Spec.NumGPUs * (1 + ch.Intn(4, "elems.evenk"))
			}
			c.Elems = 64 * wgs
			break
		}
	}
	cfgDigest := digestString(fmt.Sprintf("%+v", c))

	var problems []string
	report := func(rule, sig, format string, a ...any) {
		problems = append(problems, rule+"|"+sig+"|"+fmt.Sprintf(format, a...))
	}
	completed := 0

	sameCycleRsps := 0
	var allQueues []*driver.CommandQueue
	var qmu sync.Mutex
	apps := func(p *Platform) []App {
		// probe: two LaunchKernelRsp delivered to the driver in one cycle
		var lastRspTime float64 = -1
		p.Driver.GetPortByName("GPU").AcceptHook(hookFunc(func(ctx sim.HookCtx) {
			if ctx.Pos != sim.HookPosPortMsgRecvd {
				return
			}
			if _, ok := ctx.Item.(*protocol.LaunchKernelRsp); ok {
				now := float64(p.Engine.CurrentTime())
				if now == lastRspTime {
					sameCycleRsps++
				}
				lastRspTime = now
			}
		}))
		var list []App
		for ti := 0; ti < c.Threads; ti++ {
			ti := ti
			list = append(list, App{Name: fmt.Sprintf("app%d", ti), Run: func(p *Platform) {
				d := p.Driver
				ctx := d.Init()
				if c.Unified[ti] {
					var all []int
					for g := 1; g <= c.Spec.NumGPUs; g++ {
						all = append(all, g)
					}
					d.SelectGPU(ctx, d.CreateUnifiedGPU(ctx, all))
				} else {
					d.SelectGPU(ctx, 1+ti%c.Spec.NumGPUs)
				}
				var queues []*driver.CommandQueue
				for q := 0; q < c.Queues[ti]; q++ {
					queues = append(queues, d.CreateCommandQueue(ctx))
				}
				qmu.Lock()
				allQueues = append(allQueues, queues...)
				qmu.Unlock()
				n := c.Elems
				bytes := uint64(n * 4)
				// one buffer with three regions a,b,c separated by guard zones
				const guard = 64
				stride := bytes + guard
				base := d.AllocateMemory(ctx, 3*stride+guard)
				a, b, cc := base+guard, base+driver.Ptr(stride)+guard, base+driver.Ptr(2*stride)+guard
				pattern := make([]byte, 3*stride+guard)
				for i := range pattern {
					pattern[i] = byte(0xA0 + ti)
				}
				d.MemCopyH2D(ctx, base, pattern)
				mk := func(salt int) []uint32 {
					x := make([]uint32, n)
					for i := range x {
						x[i] = uint32(ti+1)<<24 | uint32(salt)<<16 | uint32(i)
					}
					return x
				}
				for k, kind := range c.Txns[ti] {
					q := queues[k%len(queues)]
					switch kind {
					case 0: // synchronous round trip
						x := mk(2*k + 1)
						out := make([]uint32, n)
						d.MemCopyH2D(ctx, a, x)
						d.MemCopyD2H(ctx, out, a)
						for i := range x {
							if out[i] != x[i] {
								report("R2", "sync-roundtrip-wrong", "thread %d txn %d: D2H after H2D returned %#x at %d, wrote %#x", ti, k, out[i], i, x[i])
								break
							}
						}
					case 1: // queued chain
						x1, x2 := mk(2*k+1), mk(2*k+2)
						outB, outC := make([]uint32, n), make([]uint32, n)
						for i := range outB {
							outB[i], outC[i] = 0xdeadbeef, 0xdeadbeef
						}
						d.EnqueueMemCopyH2D(q, a, x1)
						d.EnqueueMemCopyD2D(q, b, a, int(bytes))
						d.EnqueueMemCopyH2D(q, a, x2)
						d.EnqueueMemCopyD2D(q, cc, a, int(bytes))
						d.EnqueueMemCopyD2H(q, outB, b)
						d.EnqueueMemCopyD2H(q, outC, cc)
						d.DrainCommandQueue(q)
						for i := range x1 {
							if outB[i] == 0xdeadbeef || outC[i] == 0xdeadbeef {
								report("R4", "drain-returned-early", "thread %d txn %d: DrainCommandQueue returned before the queued D2H copies completed", ti, k)
								break
							}
							if outB[i] != x1[i] || outC[i] != x2[i] {
								report("R2", "chain-result-wrong", "thread %d txn %d elem %d: b=%#x (want %#x) c=%#x (want %#x): a command did not observe its predecessors' effects in queue order", ti, k, i, outB[i], x1[i], outC[i], x2[i])
								break
							}
						}
					case 2: // enqueue on one queue, drain, then read back synchronously
						x := mk(2*k + 1)
						out := make([]uint32, n)
						d.EnqueueMemCopyH2D(q, b, x)
						d.DrainCommandQueue(q)
						d.MemCopyD2H(ctx, out, b)
						for i := range x {
							if out[i] != x[i] {
								report("R4", "drain-then-read-wrong", "thread %d txn %d: data enqueued before DrainCommandQueue not visible after it (%#x vs %#x)", ti, k, out[i], x[i])
								break
							}
						}
					}
					completed++
				}
				// guard zones and isolation from the other threads
				final := make([]byte, 3*stride+guard)
				d.MemCopyD2H(ctx, final, base)
				for _, g := range []uint64{0, stride, 2 * stride, 3 * stride} {
					for i := uint64(0); i < guard; i++ {
						if final[g+i] != byte(0xA0+ti) {
							report("R3", "guard-zone-disturbed", "thread %d: byte %d of its buffer (a guard zone) changed to %#x", ti, g+i, final[g+i])
							return
						}
					}
				}
			}})
		}
		return list
	}

	finish := func(sr ScenarioResult) harness.Result {
		res := harness.Result{
			ConfigDigest: cfgDigest, OrderDigest: sr.SchedDigest,
			Events: sr.Events, SimTime: sr.SimTime,
			Faults: map[string]uint64{"host_schedule": uint64(sr.Switches)},
			Probes: map[string]uint64{},
		}
		res.Probes["drain_check_to_wait_window_visited"] = uint64(sr.PointHits["drain.before-wait"])
		res.Probes["engine_restarted"] = uint64(max(0, sr.PointHits["engine.start"]-1))
		res.Probes["queued_chain_completed"] = uint64(completed)
		if c.Threads > 1 {
			res.Probes["two_threads_interleaved"] = 1
		}
		for _, u := range c.Unified {
			if u {
				res.Probes["unified_multi_gpu_kernel"] = 1
			}
		}
		if c.Spec.Timing {
			res.Probes["timing_platform_dma_path"] = 1
		}
		res.Probes["two_kernel_responses_in_one_cycle"] = uint64(sameCycleRsps)
		res.Probes["engine_exited_while_signal_pending"] = uint64(sr.PointHits["engine.exited"])
		res.Faults["engine_exit_race"] = uint64(sr.PointHits["engine.exited"])
		res.Nontrivial = sr.Switches >= 2 && completed > 0
		if opt.Verbose {
			tr := sr.Trace
			if len(tr) > 120 {
				tr = tr[len(tr)-120:]
			}
			res.Sample = map[string]any{"config": c, "schedule_tail": tr, "steps": sr.Steps, "switches": sr.Switches}
		}
		return res
	}

	sr := RunScenario(t, c.Spec, ch, env, apps, nil, func(p *Platform, sr ScenarioResult) {
		res := finish(sr)
		switch {
		case sr.EventCap:
			res.Inconclusive = "event-cap"
		case sr.Outcome.StepsCap:
			res.Inconclusive = "steps-cap"
		default:
			res.Rule = "LIVE"
			// classify by what is pending (DESIGN 8.1): events nobody runs,
			// a command the driver never finished, or a waiter nobody woke
			pendingCmds := 0
			for _, q := range allQueues {
				pendingCmds += q.NumCommand()
			}
			switch {
			case p.Engine.Pending() > 0:
				res.Signature = "engine-exit"
			case pendingCmds > 0:
				res.Signature = "cmd-stuck"
			case contains(sr.Outcome.Blocked, "CommandQueueStatusListener).Wait"):
				res.Signature = "lost-notify"
			default:
				res.Signature = "other"
			}
			res.Detail = "every goroutine is durably blocked and the workload has not finished: " + sr.Outcome.Blocked
			tr := sr.Trace
			if len(tr) > 200 {
				tr = tr[len(tr)-200:]
			}
			res.Log = tr
			res.Sample = map[string]any{"config": c, "steps": sr.Steps}
		}
		env.Exit(res)
	})
	res := finish(sr)
	if len(sr.AppPanics) > 0 {
		res.Rule, res.Signature, res.Detail = "PANIC", "app-thread-panic", sr.AppPanics[0]
	} else if len(problems) > 0 {
		var rule, sig, det string
		parts := splitN(problems[0], "|", 3)
		rule, sig, det = parts[0], parts[1], parts[2]
		res.Rule, res.Signature, res.Detail = rule, sig, det
	}
	if res.Failed() {
		tr := sr.Trace
		if len(tr) > 200 {
			tr = tr[len(tr)-200:]
		}
		res.Log = tr
		res.Sample = map[string]any{"config": c, "steps": sr.Steps}
	}
	return res
}
