package plat

import (
	"fmt"
	"math/rand"
	"os"
	"reflect"
	"sort"
	"strings"
	"testing"

	"github.com/sarchlab/akita/v4/sim"
	"github.com/sarchlab/akita/v4/tracing"
	"github.com/sarchlab/mgpusim/v4/amd/driver"
	"github.com/sarchlab/mgpusim/v4/amd/emu"
	"github.com/sarchlab/mgpusim/v4/amd/insts"
	"github.com/sarchlab/mgpusim/v4/amd/kernels"
	"github.com/sarchlab/mgpusim/v4/amd/protocol"
	"github.com/sarchlab/mgpusim/v4/amd/timing/cu"
	"github.com/sarchlab/mgpusim/v4/amd/timing/wavefront"

	"verif/dsim/choice"
	"verif/dsim/gosched"
	"verif/dsim/harness"
	"verif/dsim/kasm"
)

func init() { Registry["C02"] = C02 }

// C02Meta describes the C02 check for evidence.
func C02Meta() harness.Meta {
	return harness.Meta{
		Rule: "each run = one seeded (program, inputs, timing platform, event order): the same race-free program with the same inputs is executed twice in one process, on an emulation platform and on a timing platform (mini R9 Nano with drawn shader arrays 1-4, CUs 1-4, L2 64 KiB-1 MiB, 1-16 DRAM banks; the shipped R9 Nano; for cdna3 binaries a mini or the shipped MI300A), same-time events of the timing run permuted in 2 of 3 runs. " +
			"Programs: generated (kasm) - drawn ALU mixes with data-dependent divergence (v_cmp / s_and_saveexec / s_cbranch_execz), 16-byte records at cache-line-unaligned addresses read with dword, x2, x4, unsigned/signed byte and unsigned short loads at drawn offsets and written with dword, x2 or x4 stores, scalar loads of 1, 2 and 4 dwords before and after the stores, a reload of the work-item's own stored record, wait counts; LDS exchange through barriers; the id probe in V2/V3 and V5 conventions - and the shipped race-free benchmarks (table flag RaceFree) at small sizes in both architectures. " +
			"Observations: every live device buffer of every context after the run (Context.VerifBuffers hook + MemCopyD2H), and per wavefront (keyed by kernel ordinal, work-group id, first work-item) the sequence of executed instructions (emulator instruction hook; timing-CU 'inst' tracing tasks). Oracle: all buffers byte-identical, every wavefront present in both modes with the identical instruction sequence (hence equal retired instruction counts). " +
			"non-trivial = the timing run reordered at least one tie or used a non-default platform shape; distinct = distinct (configuration digest, event-order digest of the timing run)",
		RealComponents: []string{"emu.ComputeUnit + ALUs", "timing cu.ComputeUnit (scheduler, coalescer, units, register files), wavefront", "timing memory hierarchy: L1/L2 caches, TLBs, address translators, ROBs, DRAM / banked memory, MMU, RDMA, command processor, DMA", "amd/driver (both copy paths: direct storage in emulation, DMA in timing)", "shipped race-free benchmarks and their kernels"},
		StubComponents: []string{"engine (SeededEngine)", "goroutine controller (canonical schedule)", "generated programs (kasm)"},
		Assumptions: []string{
			"programs are free of inter-work-group data races: generated programs by construction, shipped benchmarks by the RaceFree flag of plat/benchtable.go (set after reading each kernel)",
			"instruction identity is the printed instruction (mnemonic and operands); the program counter is not compared directly",
		},
		FaultKinds:     []string{"tie_reorder", "config_swarm"},
		ExpectedProbes: []string{"generated_alu_program", "barrier_program", "id_probe", "shipped_benchmark", "cdna3_on_mi300a", "divergent_region", "mini_platform", "shipped_platform", "register_scoreboard_on", "register_scoreboard_off", "subdword_load", "wide_load_store", "scalar_load_after_store", "reload_of_own_store", "generated_program_gfx9", "scalar_load_of_buffer_data"},
		PerRunTimeoutS: 600,
		ShrinkBudget:   24,
	}
}

type wfKey struct {
	kernel  int
	x, y, z int
	first   int
}

type instLog struct {
	packets map[*kernels.HsaKernelDispatchPacket]int
	seqs    map[wfKey][]uint32
	names   map[uint32]string
	printer insts.InstPrinter
}

func newInstLog() *instLog {
	return &instLog{packets: map[*kernels.HsaKernelDispatchPacket]int{}, seqs: map[wfKey][]uint32{}, names: map[uint32]string{}}
}

func (l *instLog) kernelOrdinal(p *kernels.HsaKernelDispatchPacket) int {
	if o, ok := l.packets[p]; ok {
		return o
	}
	o := len(l.packets)
	l.packets[p] = o
	return o
}

func (l *instLog) add(wf *kernels.Wavefront, in *insts.Inst) {
	k := wfKey{l.kernelOrdinal(wf.Packet), wf.WG.IDX, wf.WG.IDY, wf.WG.IDZ, wf.FirstWiFlatID}
	text := l.printer.Print(in)
	h := uint32(digestString(text))
	if _, ok := l.names[h]; !ok {
		l.names[h] = text
	}
	l.seqs[k] = append(l.seqs[k], h)
}

// emulator hook
type emuInstHook struct{ l *instLog }

func (h emuInstHook) Func(ctx sim.HookCtx) {
	wf, ok := ctx.Item.(*emu.Wavefront)
	if !ok {
		return
	}
	in, ok := ctx.Detail.(*insts.Inst)
	if !ok {
		return
	}
	h.l.add(wf.Wavefront, in)
}

// timing tracer
type timingInstTracer struct{ l *instLog }

func (t timingInstTracer) StartTask(task tracing.Task) {
	if task.Kind != "inst" {
		return
	}
	d, ok := task.Detail.(map[string]interface{})
	if !ok {
		return
	}
	in, _ := d["inst"].(*wavefront.Inst)
	wf, _ := d["wf"].(*wavefront.Wavefront)
	if in == nil || wf == nil || in.Inst == nil {
		return
	}
	t.l.add(wf.Wavefront, in.Inst)
}
func (timingInstTracer) StepTask(tracing.Task)          {}
func (timingInstTracer) AddMilestone(tracing.Milestone) {}
func (timingInstTracer) EndTask(tracing.Task)           {}

type c02cfg struct {
	Kind    int // 0 random ALU program, 1 barrier exchange, 2 id probe, 3 shipped benchmark
	Bench   string
	Arch    string
	Desc    string
	Timing  Spec
	WG, NWG int
}

type bufDump struct {
	ptr  uint64
	size uint64
	data []byte
}

// dumpAllBuffers reads every live buffer of every context of the driver.
func dumpAllBuffers(d *driver.Driver) []bufDump {
	var out []bufDump
	ctxs := unexported(reflect.ValueOf(d).Elem(), "contexts")
	for i := 0; i < ctxs.Len(); i++ {
		ctx := ctxs.Index(i).Interface().(*driver.Context)
		for _, b := range ctx.VerifBuffers() {
			if b.Freed || b.Size == 0 {
				continue
			}
			data := make([]byte, b.Size)
			d.MemCopyD2H(ctx, data, b.Ptr)
			out = append(out, bufDump{ptr: uint64(b.Ptr), size: b.Size, data: data})
		}
	}
	return out
}

// C02 is the property check.
func C02(t *testing.T, ch *choice.Source, opt harness.Options, env *Env) harness.Result {
	c := c02cfg{Kind: ch.Pick([]int{4, 2, 1, 5}, "kind"), Arch: "gcn3"}
	if os.Getenv("VERIF_FOCUS") == "c02-gfx9" {
		c.Kind = 0 // bug-hunting aid (VERIF_FOCUS is never set by registered commands and is recorded in replay files)
	}
	probes := map[string]uint64{}
	var entry *BenchEntry
	if c.Kind == 3 {
		var cands []int
		for i, e := range BenchTable {
			if e.RaceFree {
				cands = append(cands, i)
			}
		}
		entry = &BenchTable[cands[ch.Intn(len(cands), "bench")]]
		c.Bench = entry.Name
		c.Arch = entry.Archs[ch.Intn(len(entry.Archs), "arch")]
		probes["shipped_benchmark"] = 1
	}
	// timing platform
	gpuType := "r9nano"
	if c.Arch == "cdna3" {
		gpuType = "mi300a"
		probes["cdna3_on_mi300a"] = 1
	}
	c.Timing = Spec{Timing: true, GPUType: gpuType, NumGPUs: 1, Policy: gosched.Canonical, Burst: 1, Permute: ch.Bool(2, 3, "permute")}
	if ch.Bool(3, 4, "mini") {
		c.Timing.Mini = &MiniKnobs{NumSA: 1 + ch.Intn(4, "sa"), NumCUPerSA: 1 + ch.Intn(4, "cu"), L2KB: 64 << ch.Intn(5, "l2"), MemBanks: 1 << ch.Intn(5, "banks")}
		probes["mini_platform"] = 1
	} else {
		probes["shipped_platform"] = 1
	}
	c.WG = 64 * (1 + ch.Intn(4, "wgwf"))
	c.NWG = 1 + ch.Intn(12, "nwg")
	progSeed := uint64(ch.Intn(1<<30, "progseed")) + 1
	inputSeed := int64(ch.Intn(1<<30, "inputseed"))
	benchSeed := uint64(ch.Intn(1<<30, "benchseed")) + 1
	var listing []string
	var genCO *insts.KernelCodeObject

	// the workload: identical calls in both modes
	work := func(p *Platform, e *Env) {
		d := p.Driver
		rand.Seed(inputSeed)
		switch c.Kind {
		case 0:
			co := genCO
			ctx := d.Init()
			d.SelectGPU(ctx, 1)
			n := c.WG * c.NWG
			// records start at a drawn byte offset: not aligned to cache lines
			skew := uint64(4 * (progSeed % 13))
			in := make([]uint32, n*4+16)
			for i := range in {
				in[i] = uint32(rand.Int63())
			}
			dIn := d.AllocateMemory(ctx, uint64(len(in)*4))
			dOut := d.AllocateMemory(ctx, uint64(n*16+64))
			d.MemCopyH2D(ctx, dIn, in)
			d.MemCopyH2D(ctx, dOut, make([]uint32, n*4+16))
			args := kasm.RandArgs{In: uint64(dIn) + skew, Out: uint64(dOut) + skew,
				K: [4]uint32{uint32(rand.Int63()), uint32(rand.Int63()), 7, uint32(progSeed)}}
			d.LaunchKernel(ctx, co, [3]uint32{uint32(n), 1, 1}, [3]uint16{uint16(c.WG), 1, 1}, &args)
		case 1:
			nwf := c.WG / 64
			co, _, l, err := kasm.BarrierExchange(nwf, 1+int(progSeed%3), 0)
			if err != nil {
				harness.Bug("kasm: %v", err)
			}
			listing = l
			ctx := d.Init()
			d.SelectGPU(ctx, 1)
			n := c.WG * c.NWG
			out := d.AllocateMemory(ctx, uint64(n*4))
			d.MemCopyH2D(ctx, out, make([]uint32, n))
			args := kasm.OutArgs{Out: uint64(out)}
			d.LaunchKernel(ctx, co, [3]uint32{uint32(n), 1, 1}, [3]uint16{uint16(c.WG), 1, 1}, &args)
		case 2:
			wg := [3]int{1 + int(progSeed%19), 1 + int(progSeed/19%5), 1 + int(progSeed/95%3)}
			grid := [3]int{1 + int(progSeed/7%40), 1 + int(progSeed/280%9), 1 + int(progSeed/2520%4)}
			ceil := func(a, b int) int { return (a + b - 1) / b }
			px := ceil(grid[0], wg[0])*wg[0] + wg[0]
			py := ceil(grid[1], wg[1])*wg[1] + 1
			pz := ceil(grid[2], wg[2])*wg[2] + 1
			co, l, err := kasm.IDProbe(wg, px, py, c.Arch == "cdna3")
			if err != nil {
				harness.Bug("kasm: %v", err)
			}
			listing = l
			ctx := d.Init()
			d.SelectGPU(ctx, 1)
			cells := px * py * pz
			count := d.AllocateMemory(ctx, uint64(cells*4))
			ids := d.AllocateMemory(ctx, uint64(cells*16))
			d.MemCopyH2D(ctx, count, make([]uint32, cells))
			d.MemCopyH2D(ctx, ids, make([]uint32, cells*4))
			args := kasm.IDProbeArgs{Count: uint64(count), IDs: uint64(ids)}
			d.LaunchKernel(ctx, co, [3]uint32{uint32(grid[0]), uint32(grid[1]), uint32(grid[2])},
				[3]uint16{uint16(wg[0]), uint16(wg[1]), uint16(wg[2])}, &args)
		case 3:
			MakeGPUs = 1
			b, desc := entry.Make(d, archOf(c.Arch), choice.New(benchSeed))
			c.Desc = desc
			b.SelectGPU([]int{1})
			if v, ok := b.(verificationPreEnabling); ok {
				_ = v // cross-checks need host results; the differential oracle does not
			}
			b.Run()
		}
	}
	switch c.Kind {
	case 0:
		probes["generated_alu_program"] = 1
		if ch.Bool(1, 3, "v5program") {
			c.Arch = "cdna3"
			c.Timing.GPUType = "mi300a"
			probes["cdna3_on_mi300a"] = 1
			probes["generated_program_gfx9"] = 1
		}
		// the program is drawn from the run's own decision stream, so that minimisation simplifies the
		// program (fewer and simpler instructions) along with everything else
		if os.Getenv("VERIF_FOCUS") == "c02-gfx9" {
			c.Arch, c.Timing.GPUType = "cdna3", "mi300a" // bug-hunting aid (VERIF_FOCUS is never set by registered commands and is recorded in replay files)
		}
		co, l, err := kasm.RandomProgram(ch, c.WG, c.Arch == "cdna3")
		if err != nil {
			harness.Bug("kasm: %v", err)
		}
		genCO, listing = co, l
	case 1:
		probes["barrier_program"] = 1
	case 2:
		probes["id_probe"] = 1
		if c.Arch == "gcn3" && ch.Bool(1, 3, "v5probe") {
			c.Arch = "cdna3"
			c.Timing.GPUType = "mi300a"
			probes["cdna3_on_mi300a"] = 1
		}
	}

	type modeResult struct {
		bufs    []bufDump
		log     *instLog
		stale   *staleMon
		sr      ScenarioResult
		problem string
	}
	runMode := func(spec Spec, mode string) modeResult {
		mr := modeResult{log: newInstLog()}
		apps := func(p *Platform) []App {
			if spec.Timing {
				mr.stale = attachStaleMon(p)
			}
			for _, comp := range p.Sim.Components() {
				switch unit := comp.(type) {
				case *emu.ComputeUnit:
					unit.AcceptHook(emuInstHook{mr.log})
				case *cu.ComputeUnit:
					tracing.CollectTrace(unit, timingInstTracer{mr.log})
				}
			}
			// kernel ordinals follow the order in which the driver sends launches
			p.Driver.GetPortByName("GPU").AcceptHook(hookFunc(func(ctx sim.HookCtx) {
				if ctx.Pos == sim.HookPosPortMsgSend {
					if req, ok := ctx.Item.(*protocol.LaunchKernelReq); ok {
						mr.log.kernelOrdinal(req.Packet)
					}
				}
			}))
			return []App{{Name: "app0", Run: func(p *Platform) {
				env.Describe(map[string]any{"config": c, "mini": c.Timing.Mini, "mode": mode})
				env.Phase("run:" + mode)
				work(p, env)
				env.Phase("dump:" + mode)
				mr.bufs = dumpAllBuffers(p.Driver)
			}}}
		}
		mr.sr = RunScenario(t, spec, ch, env, apps, nil, func(p *Platform, sr ScenarioResult) {
			res := harness.Result{Rule: "LIVE", Signature: mode + "/" + hangClass(p), Detail: "the program never finished in " + mode + " mode; pending: " + describePending(p)}
			if sr.EventCap {
				res = harness.Result{Inconclusive: "event-cap"}
			}
			res.Sample = map[string]any{"config": c, "mini": c.Timing.Mini}
			res.Log = listing
			env.Exit(res)
		})
		if len(mr.sr.AppPanics) > 0 {
			mr.problem = mr.sr.AppPanics[0]
		}
		return mr
	}

	emuSpec := Spec{Arch: c.Arch, NumGPUs: 1, Policy: gosched.Canonical, Burst: 1}
	em := runMode(emuSpec, "emu")
	tm := runMode(c.Timing, "timing")

	miniDesc := ""
	if c.Timing.Mini != nil {
		miniDesc = fmt.Sprintf("%+v", *c.Timing.Mini)
	}
	specNoPtr := c.Timing
	specNoPtr.Mini = nil
	res := harness.Result{
		ConfigDigest: digestString(fmt.Sprintf("%d|%s|%s|%s|%+v|%s|%d|%d|%d", c.Kind, c.Bench, c.Arch, c.Desc, specNoPtr, miniDesc, c.WG, c.NWG, progSeed)),
		OrderDigest:  tm.sr.SchedDigest ^ uint64(tm.sr.Events)<<20 ^ uint64(tm.sr.TieReorder),
		Events:       em.sr.Events + tm.sr.Events, SimTime: tm.sr.SimTime,
		Faults: map[string]uint64{"tie_reorder": tm.sr.TieReorder, "config_swarm": 1},
		Probes: probes,
	}
	res.Nontrivial = tm.sr.TieReorder > 0 || c.Timing.Mini != nil
	if c.Timing.GPUType == "mi300a" {
		probes["register_scoreboard_on"] = 1 // the MI300A model enables the CU's register scoreboard, the R9 Nano model does not
	} else {
		probes["register_scoreboard_off"] = 1
	}
	for _, l := range listing {
		if strings.Contains(l, "s_and_saveexec") {
			probes["divergent_region"] = 1
		}
		if strings.Contains(l, "flat_load_ubyte") || strings.Contains(l, "flat_load_sbyte") || strings.Contains(l, "flat_load_ushort") {
			probes["subdword_load"] = 1
		}
		if strings.Contains(l, "s_load_dwordx4 s[28:31]") || strings.Contains(l, "s_load_dwordx2 s[28:29]") {
			probes["scalar_load_of_buffer_data"] = 1
		}
		if strings.Contains(l, "s_load_dword s28") {
			probes["scalar_load_after_store"] = 1
		}
		if strings.Contains(l, "flat_load_dword v20") {
			probes["reload_of_own_store"] = 1
		}
		if strings.Contains(l, "dwordx2") || strings.Contains(l, "dwordx4") {
			probes["wide_load_store"] = 1
		}
	}
	tag := c.Bench
	if tag == "" {
		tag = []string{"generated-alu", "barrier-exchange", "id-probe"}[c.Kind]
	}
	tag = strings.Split(tag, "@")[0] + "/" + c.Arch
	switch {
	case em.problem != "" && tm.problem != "":
		// the program fails in both modes alike: not a transparency question
		res.Inconclusive = "program-fails-in-both-modes"
	case em.problem != "":
		res.Rule, res.Signature, res.Detail = "R1", tag+"/panic-in-emulation-only", em.problem
	case tm.problem != "":
		res.Rule, res.Signature, res.Detail = "R1", tag+"/panic-in-timing-only@"+lastField(tm.problem, " @ "), tm.problem
	default:
		// R1: buffers
		if len(em.bufs) != len(tm.bufs) {
			res.Rule, res.Signature = "R1", tag+"/buffer-set-differs"
			res.Detail = fmt.Sprintf("emulation left %d live buffers, timing %d", len(em.bufs), len(tm.bufs))
			break
		}
		for i := range em.bufs {
			a, b := em.bufs[i], tm.bufs[i]
			if a.ptr != b.ptr || a.size != b.size {
				res.Rule, res.Signature = "R1", tag+"/buffer-set-differs"
				res.Detail = fmt.Sprintf("buffer %d: emulation %#x+%d, timing %#x+%d", i, a.ptr, a.size, b.ptr, b.size)
				break
			}
			for k := range a.data {
				if a.data[k] != b.data[k] {
					res.Rule, res.Signature = "R1", tag+"/buffer-bytes-differ"
					res.Detail = fmt.Sprintf("buffer %d (%#x, %d bytes) differs at byte %d: emulation %#x, timing %#x", i, a.ptr, a.size, k, a.data[k], b.data[k])
					// where else the buffer differs (32-bit words), for the report
					var words []int
					for w := 0; w+4 <= len(a.data) && len(words) < 24; w += 4 {
						if string(a.data[w:w+4]) != string(b.data[w:w+4]) {
							words = append(words, w/4)
						}
					}
					res.Detail += fmt.Sprintf("; differing 32-bit words (first 24): %v", words)
					if cause, ex := tm.stale.knownCause(); cause != "" {
						// the cause is known and named; the signature does not depend on the program
						res.Signature = "buffer-bytes-differ/" + cause
						res.Detail += "; " + ex
					}
					break
				}
			}
			if res.Rule != "" {
				break
			}
		}
		if res.Rule != "" {
			break
		}
		// R2-R4: instruction sequences
		keys := make([]wfKey, 0, len(em.log.seqs))
		for k := range em.log.seqs {
			keys = append(keys, k)
		}
		sort.Slice(keys, func(i, j int) bool {
			a, b := keys[i], keys[j]
			if a.kernel != b.kernel {
				return a.kernel < b.kernel
			}
			if a.z != b.z {
				return a.z < b.z
			}
			if a.y != b.y {
				return a.y < b.y
			}
			if a.x != b.x {
				return a.x < b.x
			}
			return a.first < b.first
		})
		if len(em.log.seqs) != len(tm.log.seqs) {
			res.Rule, res.Signature = "R4", tag+"/wavefront-set-differs"
			res.Detail = fmt.Sprintf("emulation executed %d wavefronts, timing %d", len(em.log.seqs), len(tm.log.seqs))
		}
		for _, k := range keys {
			if res.Rule != "" {
				break
			}
			a := em.log.seqs[k]
			b, ok := tm.log.seqs[k]
			if !ok {
				res.Rule, res.Signature = "R4", tag+"/wavefront-missing-in-timing"
				res.Detail = fmt.Sprintf("wavefront %+v executed in emulation only", k)
				break
			}
			for i := 0; i < len(a) && i < len(b); i++ {
				if a[i] != b[i] {
					res.Rule, res.Signature = "R2", tag+"/instruction-sequence-differs"
					res.Detail = fmt.Sprintf("wavefront %+v: instruction %d is %q in emulation and %q in timing", k, i, em.log.names[a[i]], tm.log.names[b[i]])
					break
				}
			}
			if res.Rule == "" && len(a) != len(b) {
				res.Rule, res.Signature = "R3", tag+"/retired-instruction-count-differs"
				res.Detail = fmt.Sprintf("wavefront %+v retired %d instructions in emulation and %d in timing", k, len(a), len(b))
			}
		}
	}
	if opt.Verbose || res.Failed() {
		nInst := 0
		for _, s := range em.log.seqs {
			nInst += len(s)
		}
		res.Sample = map[string]any{"config": c, "mini": c.Timing.Mini, "buffers_compared": len(em.bufs), "wavefronts_compared": len(em.log.seqs), "instructions_compared": nInst}
	}
	if res.Failed() {
		res.Log = listing
	}
	return res
}
