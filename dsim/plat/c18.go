package plat

import (
	"fmt"
	"math/rand"
	"strings"
	"testing"

	"github.com/sarchlab/akita/v4/sim"
	"github.com/sarchlab/mgpusim/v4/amd/driver"
	"github.com/sarchlab/mgpusim/v4/amd/insts"
	"github.com/sarchlab/mgpusim/v4/amd/protocol"

	"verif/dsim/choice"
	"verif/dsim/gosched"
	"verif/dsim/harness"
	"verif/dsim/kasm"
)

func init() { Registry["C18"] = C18 }

// C18Meta describes part (a) of the C18 check for evidence.
func C18Meta() harness.Meta {
	return harness.Meta{
		Rule: "each run = one seeded (workload, inputs, GPU set, spreading, platform, event order): the same workload with the same inputs is executed twice in one process - on one GPU, and on 2 or 4 GPUs either as a unified device (the driver spreads pages and work-groups) or as plain GPUs with the buffers distributed page-wise over a drawn subset of the GPUs (Driver.Distribute) and the kernel launched on a drawn GPU, or split by the workload itself over all GPUs - on emulation platforms and on timing platforms (shipped R9 Nano multi-GPU platform, or the reduced one with drawn shader arrays / CUs / L2 / DRAM banks; same-time events permuted in half of the timing runs; real RDMA engines, PCIe model, caches). " +
			"Workloads: a generated gather kernel (kasm) whose reads reach the whole input buffer, so that with spread buffers most reads and many writes are remote, its input uploaded in chunks of a drawn length (copies that start inside a page and cross into a frame on another GPU), and the shipped element-wise workloads of the table at sizes admissible for every GPU count. Oracle: every live device buffer after the multi-GPU run is byte-identical to the one-GPU run (compared in allocation order when both runs allocate the same buffers; the gather kernel additionally against its Go model). " +
			"non-trivial = remote pages existed (more than one GPU held pages of a buffer the kernel touched) ; distinct = distinct (configuration digest, event-order digest)",
		RealComponents: []string{"amd/driver (Distribute, unified devices, work-group splitting, memory copies to spread buffers)", "emulation platforms with 1, 2 and 4 GPUs", "timing platforms with 1, 2 and 4 GPUs: rdma.Comp, PCIe switches, L1/L2 caches, TLBs, MMU, DRAM, command processors, CUs", "shipped element-wise workloads"},
		StubComponents: []string{"engine (SeededEngine)", "goroutine controller (canonical schedule)", "generated gather kernel (kasm)"},
		Assumptions:    []string{"workloads are element-wise (table flag) so every output element is computed by the same instruction sequence whatever the spreading: bit-identical results are required", "buffers are distributed before data is copied into them (as the shipped workloads do)"},
		FaultKinds:     []string{"tie_reorder", "config_swarm"},
		ExpectedProbes: []string{"gather_kernel", "shipped_workload", "unified_device", "plain_distributed", "workload_split", "timing", "emulation", "two_gpus", "four_gpus", "launch_on_non_home_gpu", "two_dimensional_launch"},
		PerRunTimeoutS: 600,
		ShrinkBudget:   24,
	}
}

type c18cfg struct {
	Kind     int // 0 gather kernel, 1 shipped workload
	Bench    string
	Desc     string
	Timing   bool
	N        int
	Mode     int // 0 unified device, 1 plain: buffers distributed, launch on one GPU (gather) / split by the workload (shipped)
	Subset   []int
	LaunchOn int
	Log2N    int
	WG       int
	WGY      int // > 1: two-dimensional launch, work-group WG/WGY x WGY, grid width GridW
	GridW    int
	Permute  bool
}

// C18 is part (a) of the property check.
func C18(t *testing.T, ch *choice.Source, opt harness.Options, env *Env) harness.Result {
	c := c18cfg{Kind: ch.Pick([]int{1, 1}, "kind"), Timing: ch.Bool(2, 5, "timing"), N: []int{2, 4}[ch.Intn(2, "n")], Mode: ch.Intn(2, "mode")}
	probes := map[string]uint64{}
	var entry *BenchEntry
	if c.Kind == 1 {
		var cands []int
		for i, e := range BenchTable {
			if !e.Elementwise || !e.RaceFree || e.Archs[0] != "gcn3" {
				continue
			}
			if c.Mode == 1 && !e.MultiGPU {
				continue
			}
			cands = append(cands, i)
		}
		entry = &BenchTable[cands[ch.Intn(len(cands), "bench")]]
		c.Bench = entry.Name
		probes["shipped_workload"] = 1
	} else {
		probes["gather_kernel"] = 1
	}
	var mini *MiniKnobs
	if c.Timing {
		c.Permute = ch.Bool(1, 2, "permute")
		if ch.Bool(3, 4, "mini") {
			mini = &MiniKnobs{NumSA: 1 + ch.Intn(2, "sa"), NumCUPerSA: 1 + ch.Intn(3, "cu"), L2KB: 64 << ch.Intn(4, "l2"), MemBanks: 1 << ch.Intn(4, "banks")}
		}
		probes["timing"] = 1
	} else {
		probes["emulation"] = 1
	}
	if c.N == 2 {
		probes["two_gpus"] = 1
	} else {
		probes["four_gpus"] = 1
	}
	// gather parameters
	c.Log2N = 8 + ch.Intn(6, "log2n") // 256 .. 8192 elements = 1 KiB .. 32 KiB: up to 8 pages per buffer
	c.WG = 64 * (1 + ch.Intn(4, "wgwf"))
	if c.WG == 192 {
		c.WG = 128
	}
	if ch.Bool(1, 3, "twodim") {
		// a two-dimensional launch of the same kernel; work-groups wider than tall as well as square ones
		c.WG = 64
		c.WGY = 1 << (1 + ch.Intn(3, "wgy")) // 2, 4, 8
		c.GridW = 64 << ch.Intn(3, "gridw") // 64, 128, 256 work-items wide
		if c.Log2N < 10 {
			c.Log2N = 10
		}
		probes["two_dimensional_launch"] = 1
	}
	k := uint32(2*ch.Intn(1<<12, "k") + 1)
	cc := uint32(ch.Intn(1<<16, "c"))
	// plain mode: buffers over a drawn subset (at least two GPUs), launch on a drawn GPU
	perm := ch.Perm(c.N, "subset")
	ns := 2 + ch.Intn(c.N-1, "nsubset")
	for _, g := range perm[:ns] {
		c.Subset = append(c.Subset, g+1)
	}
	c.LaunchOn = 1 + ch.Intn(c.N, "launchon")
	chunkWords := 1 + ch.Intn(3000, "chunkwords")
	if lim := (1 << c.Log2N) / 24; chunkWords < lim {
		chunkWords = lim + chunkWords%7 // at most about 24 copies per upload
	}
	inputSeed := int64(ch.Intn(1<<30, "inputseed"))
	benchSeed := uint64(ch.Intn(1<<30, "benchseed")) + 1
	switch c.Mode {
	case 0:
		probes["unified_device"] = 1
	case 1:
		if c.Kind == 0 {
			probes["plain_distributed"] = 1
			if c.LaunchOn != c.Subset[0] {
				probes["launch_on_non_home_gpu"] = 1
			}
		} else {
			probes["workload_split"] = 1
		}
	}
	var listing []string
	var model []uint32
	var outPtr uint64

	work := func(p *Platform, multi bool) {
		d := p.Driver
		rand.Seed(inputSeed)
		all := []int{}
		for g := 1; g <= c.N; g++ {
			all = append(all, g)
		}
		switch c.Kind {
		case 0:
			var co *insts.KernelCodeObject
			var l []string
			var err error
			if c.WGY > 1 {
				co, l, err = kasm.Gather2D(c.WG/c.WGY, c.WGY, c.GridW)
			} else {
				co, l, err = kasm.Gather(c.WG)
			}
			if err != nil {
				harness.Bug("kasm: %v", err)
			}
			listing = l
			n := 1 << c.Log2N
			in := make([]uint32, n)
			for i := range in {
				in[i] = uint32(rand.Int63())
			}
			model = kasm.GatherModel(in, k, cc)
			ctx := d.Init()
			dev := 1
			if multi && c.Mode == 0 {
				dev = d.CreateUnifiedGPU(ctx, all)
			} else if multi {
				dev = c.Subset[0]
			}
			d.SelectGPU(ctx, dev)
			dIn := d.AllocateMemory(ctx, uint64(n*4))
			dOut := d.AllocateMemory(ctx, uint64(n*4))
			if multi && c.Mode == 1 {
				d.Distribute(ctx, dIn, uint64(n*4), c.Subset)
				d.Distribute(ctx, dOut, uint64(n*4), c.Subset)
				d.SelectGPU(ctx, c.LaunchOn)
			}
			// the input is uploaded in chunks of a drawn length, so that copies start inside pages and
			// cross page boundaries whose physical frames are on different GPUs
			for off := 0; off < n; off += chunkWords {
				end := min(off+chunkWords, n)
				d.MemCopyH2D(ctx, driver.Ptr(uint64(dIn)+uint64(off*4)), in[off:end])
			}
			d.MemCopyH2D(ctx, dOut, make([]uint32, n))
			outPtr = uint64(dOut)
			args := kasm.GatherArgs{In: uint64(dIn), Out: uint64(dOut), Mask: uint32(n - 1), K: k, C: cc}
			if c.WGY > 1 {
				d.LaunchKernel(ctx, co, [3]uint32{uint32(c.GridW), uint32(n / c.GridW), 1}, [3]uint16{uint16(c.WG / c.WGY), uint16(c.WGY), 1}, &args)
			} else {
				d.LaunchKernel(ctx, co, [3]uint32{uint32(n), 1, 1}, [3]uint16{uint16(c.WG), 1, 1}, &args)
			}
		case 1:
			MakeGPUs = 1
			MakeGPUCounts = []int{1, c.N}
			b, desc := entry.Make(d, archOf("gcn3"), choice.New(benchSeed))
			MakeGPUCounts = nil
			c.Desc = desc
			switch {
			case !multi:
				b.SelectGPU([]int{1})
			case c.Mode == 0:
				b.SelectGPU([]int{d.CreateUnifiedGPU(nil, all)})
			default:
				b.SelectGPU(all)
			}
			b.Run()
		}
	}

	type modeResult struct {
		internal map[uint64]bool // buffers the driver allocated itself for a launch: code, arguments (they hold pointers), packet
		bufs    []bufDump
		stale   *staleMon
		sr      ScenarioResult
		problem string
	}
	runMode := func(spec Spec, multi bool, mode string) modeResult {
		mr := modeResult{internal: map[uint64]bool{}}
		apps := func(p *Platform) []App {
			if spec.Timing {
				mr.stale = attachStaleMon(p)
			}
			p.Driver.GetPortByName("GPU").AcceptHook(hookFunc(func(ctx sim.HookCtx) {
				if req, ok := ctx.Item.(*protocol.LaunchKernelReq); ok && ctx.Pos == sim.HookPosPortMsgSend {
					mr.internal[req.Packet.KernelObject] = true
					mr.internal[req.Packet.KernargAddress] = true
					mr.internal[req.PacketAddress] = true
				}
			}))
			return []App{{Name: "app0", Run: func(p *Platform) {
				env.Describe(map[string]any{"config": c, "mini": mini, "mode": mode})
				env.Phase("run:" + mode)
				work(p, multi)
				env.Phase("dump:" + mode)
				for _, b := range dumpAllBuffers(p.Driver) {
					if !mr.internal[b.ptr] {
						mr.bufs = append(mr.bufs, b)
					}
				}
			}}}
		}
		mr.sr = RunScenario(t, spec, ch, env, apps, nil, func(p *Platform, sr ScenarioResult) {
			res := harness.Result{Rule: "LIVE", Signature: mode + "/" + hangClass(p), Detail: "the workload never finished on " + mode + "; pending: " + describePending(p)}
			if sr.EventCap {
				res = harness.Result{Inconclusive: "event-cap"}
			}
			res.Sample = map[string]any{"config": c, "mini": mini}
			res.Log = listing
			env.Exit(res)
		})
		if len(mr.sr.AppPanics) > 0 {
			mr.problem = mr.sr.AppPanics[0]
		}
		return mr
	}
	mk := func(n int) Spec {
		s := Spec{Arch: "gcn3", NumGPUs: n, Policy: gosched.Canonical, Burst: 1}
		if c.Timing {
			s = Spec{Timing: true, GPUType: "r9nano", NumGPUs: n, Policy: gosched.Canonical, Burst: 1, Permute: c.Permute, Mini: mini}
		}
		return s
	}
	multiName := fmt.Sprintf("%dgpu-%s", c.N, []string{"unified", "plain"}[c.Mode])
	one := runMode(mk(1), false, "1gpu")
	many := runMode(mk(c.N), true, multiName)

	miniDesc := ""
	if mini != nil {
		miniDesc = fmt.Sprintf("%+v", *mini)
	}
	res := harness.Result{
		ConfigDigest: digestString(fmt.Sprintf("%+v|%s|%d|%d", c, miniDesc, k, cc)),
		OrderDigest:  many.sr.SchedDigest ^ uint64(many.sr.Events)<<20 ^ uint64(many.sr.TieReorder),
		Events:       one.sr.Events + many.sr.Events, SimTime: many.sr.SimTime,
		Faults:     map[string]uint64{"tie_reorder": many.sr.TieReorder + one.sr.TieReorder, "config_swarm": 1},
		Probes:     probes,
		Nontrivial: true,
	}
	tag := "gather"
	if c.Kind == 1 {
		tag = strings.Split(c.Bench, "@")[0]
	}
	mode := "emu"
	if c.Timing {
		mode = "timing"
	}
	tag += "/" + mode + "/" + multiName
	staleCause, _ := many.stale.knownCause()
	if c1, _ := one.stale.knownCause(); staleCause == "" {
		staleCause = c1
	}
	staleSeen := staleCause != ""
	switch {
	case one.problem != "" && many.problem != "":
		res.Inconclusive = "workload-fails-on-one-gpu-too"
	case one.problem != "":
		res.Inconclusive = "workload-fails-on-one-gpu"
	case many.problem != "":
		res.Rule, res.Signature, res.Detail = "R2", mode+"/"+multiName+"/panic@"+lastField(many.problem, " @ "), many.problem
	default:
		if c.Kind == 0 {
			// the generated kernel is also checked against its model on both platforms
			for which, mr := range []modeResult{one, many} {
				var out []byte
				for _, b := range mr.bufs {
					if b.ptr == outPtr {
						out = b.data
					}
				}
				if len(out) != 4*len(model) {
					harness.Bug("gather: output buffer %#x not among the %d live buffers", outPtr, len(mr.bufs))
				}
				for i, want := range model {
					got := uint32(out[4*i]) | uint32(out[4*i+1])<<8 | uint32(out[4*i+2])<<16 | uint32(out[4*i+3])<<24
					if got != want {
						if which == 0 {
							harness.Bug("gather kernel disagrees with its model on one GPU: out[%d]=%#x want %#x", i, got, want)
						}
						res.Rule, res.Signature = "R1", tag+"/element-wrong"
						res.Detail = fmt.Sprintf("out[%d] = %#x on %s, %#x on one GPU (= model)", i, got, multiName, want)
						break
					}
				}
			}
		}
		if res.Rule == "" && len(one.bufs) == len(many.bufs) {
			same := true
			for i := range one.bufs {
				// the application's buffers in allocation order (virtual addresses may differ between devices)
				if one.bufs[i].size != many.bufs[i].size {
					same = false
				}
			}
			if same {
				probes["buffers_compared"] = uint64(len(one.bufs))
				for i := range one.bufs {
					a, b := one.bufs[i], many.bufs[i]
					for x := range a.data {
						if a.data[x] != b.data[x] {
							res.Rule, res.Signature = "R1", tag+"/buffer-bytes-differ"
							res.Detail = fmt.Sprintf("buffer %d (%d bytes) differs at byte %d: one GPU %#x, %s %#x", i, a.size, x, a.data[x], multiName, b.data[x])
							break
						}
					}
					if res.Rule != "" {
						break
					}
				}
			} else {
				probes["buffer_shapes_differ"] = 1
			}
		} else if res.Rule == "" {
			probes["buffer_shapes_differ"] = 1
		}
		if res.Rule == "R1" && staleSeen {
			res.Signature = "buffer-bytes-differ/" + staleCause
		}
	}
	if opt.Verbose || res.Failed() {
		res.Sample = map[string]any{"config": c, "mini": mini, "buffers": len(one.bufs)}
	}
	if res.Failed() {
		res.Log = listing
	}
	return res
}
