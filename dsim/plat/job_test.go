package plat

import "testing"

// TestJob is the entry point of the worker process (see harness.External).
func TestJob(t *testing.T) { RunJob(t) }
