//go:debug randseednop=0

package plat

// The directive above makes math/rand.Seed effective in the worker binary, so
// that the shipped benchmarks - which draw their inputs from the global
// math/rand source - get inputs that are a function of the run's seed.
