package plat

import (
	"fmt"
	"testing"

	"github.com/sarchlab/mgpusim/v4/amd/driver"

	"verif/dsim/choice"
	"verif/dsim/gosched"
	"verif/dsim/harness"
	"verif/dsim/kasm"
)

func init() { Registry["C08"] = C08 }

// C08Meta describes the C08 platform check for evidence.
func C08Meta() harness.Meta {
	return harness.Meta{
		Rule: "whole-platform part: each run = one seeded (platform, dispatch geometry, GPU spread, event order): an id-probe kernel assembled for the geometry (kasm; every instruction verified with the repository's disassembler) is launched through the real driver on an emulation platform (gcn3 or cdna3 ALU) or a shipped timing platform (r9nano, mi300a), " +
			"on one GPU, or on a unified device of 2-4 GPUs (work-group filter per GPU). Geometry: 1-3 dimensions, grid 1..70 per axis (bounded to ~6000 work-items), work-group shape any (x,y,z) with product <= 1024 including non-powers-of-two, partial work-groups and partial wavefronts common. V2/V3-style code objects (separate id registers) and V5-style (ids packed into v0). " +
			"Every lane computes its global coordinates from the hardware-initialised ids as compiled code does, increments count[cell] and stores its raw id registers to ids[cell] in an array padded beyond the grid. Oracle: count == 1 on every grid cell and 0 on every padding cell, ids decode to the cell's coordinates. " +
			"non-trivial = a partial work-group or a partial wavefront or several GPUs; distinct = distinct (configuration digest, event-order digest)",
		RealComponents: []string{"amd/driver (kernel launch, unified multi-GPU launch, distributeWGToGPUs, WGFilter)", "amd/kernels.GridBuilder", "command processor + dispatchers", "emu.ComputeUnit.initWfRegs or timing cu.WfDispatcherImpl.initRegisters", "ALUs (gcn3 / cdna3)", "memory system of the platform"},
		StubComponents: []string{"engine (SeededEngine)", "goroutine controller (canonical schedule)", "probe kernel (kasm)"},
		Assumptions: []string{
			"the probe uses only instructions whose encoding and semantics are identical in GCN3 and CDNA3 (validated by a fixed self-test geometry on both ALUs before any verdict)",
			"the dispatch algorithm of whole platforms is round-robin (the builders hard-code it); greedy and partition are exercised with work-group filters by the component part of this check",
		},
		FaultKinds:     []string{"tie_reorder", "config_swarm"},
		ExpectedProbes: []string{"partial_workgroup", "partial_wavefront", "non_power_of_two_workgroup", "three_dimensional", "unified_multi_gpu", "v5_packed_ids", "timing_platform", "mi300a"},
		PerRunTimeoutS: 240,
		ShrinkBudget:   40,
	}
}

type c08cfg struct {
	Spec    Spec
	Grid    [3]int
	WG      [3]int
	V5      bool
	Unified int // number of GPUs in the unified device (0 = plain single GPU)
	GPU     int
}

// C08 is the whole-platform part of the property check.
func C08(t *testing.T, ch *choice.Source, opt harness.Options, env *Env) harness.Result {
	c := c08cfg{}
	switch ch.Pick([]int{4, 3, 2, 2}, "platform") {
	case 0:
		c.Spec = Spec{Arch: "gcn3", NumGPUs: 1 + ch.Intn(4, "gpus")}
	case 1:
		c.Spec = Spec{Arch: "cdna3", NumGPUs: 1 + ch.Intn(4, "gpus")}
		c.V5 = true
	case 2:
		c.Spec = Spec{Timing: true, GPUType: "r9nano", NumGPUs: 1 + ch.Intn(2, "gpus")}
	case 3:
		c.Spec = Spec{Timing: true, GPUType: "mi300a", NumGPUs: 1}
		c.V5 = true
	}
	c.Spec.Policy = gosched.Canonical
	c.Spec.Burst = 1
	if c.Spec.Timing {
		c.Spec.Permute = ch.Bool(1, 2, "permute")
	}
	c.GPU = 1 + ch.Intn(c.Spec.NumGPUs, "gpu")
	if c.Spec.NumGPUs >= 2 && ch.Bool(1, 2, "unified") {
		c.Unified = c.Spec.NumGPUs
	}
	// geometry
	dims := 1 + ch.Intn(3, "dims")
	c.Grid, c.WG = [3]int{1, 1, 1}, [3]int{1, 1, 1}
	budget := 6000
	if c.Spec.Timing {
		budget = 2500
	}
	switch dims {
	case 1:
		c.WG[0] = 1 + ch.Intn(1024, "wgx")
		if ch.Bool(1, 2, "wg.small") {
			c.WG[0] = 1 + ch.Intn(130, "wgx.s")
		}
		c.Grid[0] = 1 + ch.Intn(budget, "gx")
	case 2:
		c.WG[0] = 1 + ch.Intn(64, "wgx")
		c.WG[1] = 1 + ch.Intn(min(16, 1024/c.WG[0]), "wgy")
		c.Grid[0] = 1 + ch.Intn(70, "gx")
		c.Grid[1] = 1 + ch.Intn(min(70, max(1, budget/c.Grid[0])), "gy")
	case 3:
		c.WG[0] = 1 + ch.Intn(32, "wgx")
		c.WG[1] = 1 + ch.Intn(min(8, 1024/c.WG[0]), "wgy")
		c.WG[2] = 1 + ch.Intn(min(4, 1024/(c.WG[0]*c.WG[1])), "wgz")
		c.Grid[0] = 1 + ch.Intn(40, "gx")
		c.Grid[1] = 1 + ch.Intn(min(20, max(1, budget/c.Grid[0])), "gy")
		c.Grid[2] = 1 + ch.Intn(min(10, max(1, budget/(c.Grid[0]*c.Grid[1]))), "gz")
	}
	cfgDigest := digestString(fmt.Sprintf("%+v", c))
	probes := map[string]uint64{}
	wgItems := c.WG[0] * c.WG[1] * c.WG[2]
	partialWG := c.Grid[0]%c.WG[0] != 0 || c.Grid[1]%c.WG[1] != 0 || c.Grid[2]%c.WG[2] != 0
	if partialWG {
		probes["partial_workgroup"] = 1
	}
	if wgItems%64 != 0 || partialWG {
		probes["partial_wavefront"] = 1
	}
	if wgItems&(wgItems-1) != 0 {
		probes["non_power_of_two_workgroup"] = 1
	}
	if dims == 3 {
		probes["three_dimensional"] = 1
	}
	if c.Unified > 0 {
		probes["unified_multi_gpu"] = 1
	}
	if c.V5 {
		probes["v5_packed_ids"] = 1
	}
	if c.Spec.Timing {
		probes["timing_platform"] = 1
	}
	if c.Spec.GPUType == "mi300a" {
		probes["mi300a"] = 1
	}

	var problem *harness.Result
	fail := func(rule, sig, format string, a ...any) {
		if problem == nil {
			problem = &harness.Result{Rule: rule, Signature: sig, Detail: fmt.Sprintf(format, a...)}
		}
	}
	var listing []string

	// runProbe launches one probe and checks it; it returns false when the
	// result is wrong
	runProbe := func(p *Platform, ctx *driver.Context, grid, wg [3]int, v5 bool, selfTest bool) {
		d := p.Driver
		ceil := func(a, b int) int { return (a + b - 1) / b }
		px := ceil(grid[0], wg[0])*wg[0] + wg[0]
		py := ceil(grid[1], wg[1])*wg[1] + 1
		pz := ceil(grid[2], wg[2])*wg[2] + 1
		cells := px * py * pz
		co, l, err := kasm.IDProbe(wg, px, py, v5)
		if err != nil {
			harness.Bug("kasm: %v", err)
		}
		listing = l
		count := d.AllocateMemory(ctx, uint64(cells*4))
		ids := d.AllocateMemory(ctx, uint64(cells*16))
		d.MemCopyH2D(ctx, count, make([]uint32, cells))
		d.MemCopyH2D(ctx, ids, make([]uint32, cells*4))
		args := kasm.IDProbeArgs{Count: uint64(count), IDs: uint64(ids)}
		d.LaunchKernel(ctx, co, [3]uint32{uint32(grid[0]), uint32(grid[1]), uint32(grid[2])},
			[3]uint16{uint16(wg[0]), uint16(wg[1]), uint16(wg[2])}, &args)
		gotCount := make([]uint32, cells)
		gotIDs := make([]uint32, cells*4)
		d.MemCopyD2H(ctx, gotCount, count)
		d.MemCopyD2H(ctx, gotIDs, ids)
		what := ""
		if selfTest {
			what = "self-test "
		}
		for z := 0; z < pz; z++ {
			for y := 0; y < py; y++ {
				for x := 0; x < px; x++ {
					cell := (z*py+y)*px + x
					inside := x < grid[0] && y < grid[1] && z < grid[2]
					switch {
					case inside && gotCount[cell] != 1:
						fail("R1", what+"work-item-executed-not-once", "work-item (%d,%d,%d) of grid %v (work-group %v) executed %d times", x, y, z, grid, wg, gotCount[cell])
						return
					case !inside && gotCount[cell] != 0:
						fail("R2", what+"lane-enabled-outside-grid", "a lane ran for coordinate (%d,%d,%d) outside grid %v (work-group %v): count %d", x, y, z, grid, wg, gotCount[cell])
						return
					}
					if !inside {
						continue
					}
					wgid, v0, v1, v2 := gotIDs[cell*4], gotIDs[cell*4+1], gotIDs[cell*4+2], gotIDs[cell*4+3]
					wantWG := uint32(x/wg[0]) | uint32(y/wg[1])<<10 | uint32(z/wg[2])<<20
					lx, ly, lz := uint32(x%wg[0]), uint32(y%wg[1]), uint32(z%wg[2])
					okIDs := wgid == wantWG
					if v5 {
						okIDs = okIDs && v0 == lx|ly<<10|lz<<20
					} else {
						okIDs = okIDs && v0 == lx && v1 == ly && v2 == lz
					}
					if !okIDs {
						mode := "emu"
						if c.Spec.Timing {
							mode = "timing"
						}
						fail("R3", what+"hardware-ids-wrong/"+mode, "work-item (%d,%d,%d): hardware ids wg=%#x v0=%#x v1=%d v2=%d, expected wg=%#x local=(%d,%d,%d) (v5 packing=%v)", x, y, z, wgid, v0, v1, v2, wantWG, lx, ly, lz, v5)
						return
					}
				}
			}
		}
	}

	apps := func(p *Platform) []App {
		return []App{{Name: "app0", Run: func(p *Platform) {
			d := p.Driver
			ctx := d.Init()
			// self-test of the probe on this platform's ALU with a fixed
			// plain geometry (full work-groups, one GPU): if it fails here the
			// instrument, not the dispatch, is in question
			d.SelectGPU(ctx, 1)
			env.Phase("selftest")
			runProbe(p, ctx, [3]int{64, 1, 1}, [3]int{64, 1, 1}, c.V5, true)
			if problem != nil {
				return
			}
			if c.Unified > 0 {
				var all []int
				for g := 1; g <= c.Unified; g++ {
					all = append(all, g)
				}
				d.SelectGPU(ctx, d.CreateUnifiedGPU(ctx, all))
			} else {
				d.SelectGPU(ctx, c.GPU)
			}
			env.Phase("probe")
			runProbe(p, ctx, c.Grid, c.WG, c.V5, false)
		}}}
	}

	finish := func(sr ScenarioResult) harness.Result {
		res := harness.Result{
			ConfigDigest: cfgDigest, OrderDigest: sr.SchedDigest ^ uint64(sr.Events)<<20 ^ uint64(sr.TieReorder),
			Events: sr.Events, SimTime: sr.SimTime,
			Faults: map[string]uint64{"tie_reorder": sr.TieReorder, "config_swarm": 1},
			Probes: probes,
		}
		res.Nontrivial = probes["partial_workgroup"]+probes["partial_wavefront"]+probes["unified_multi_gpu"] > 0
		if opt.Verbose {
			res.Sample = map[string]any{"config": c}
		}
		return res
	}
	sr := RunScenario(t, c.Spec, ch, env, apps, nil, func(p *Platform, sr ScenarioResult) {
		res := finish(sr)
		if sr.EventCap {
			res.Inconclusive = "event-cap"
		} else {
			res.Rule, res.Signature = "LIVE", hangClass(p)
			res.Detail = "the probe kernel or a copy never completed; pending: " + describePending(p)
			res.Sample = map[string]any{"config": c}
		}
		env.Exit(res)
	})
	res := finish(sr)
	if len(sr.AppPanics) > 0 {
		res.Rule, res.Signature, res.Detail = "PANIC", "app-thread-panic/"+lastField(sr.AppPanics[0], " @ "), sr.AppPanics[0]
	} else if problem != nil {
		res.Rule, res.Signature, res.Detail = problem.Rule, problem.Signature, problem.Detail
		if contains(problem.Signature, "self-test") {
			// the instrument itself is in question on this platform: no verdict
			return harness.Result{HarnessBug: "id-probe self-test failed on " + c.Spec.Describe() + ": " + problem.Detail}
		}
	}
	if res.Failed() {
		res.Sample = map[string]any{"config": c}
		res.Log = listing
	}
	return res
}
