package plat

import (
	"fmt"
	"hash/fnv"
	"math"
	"sort"
	"strings"

	"github.com/sarchlab/akita/v4/sim"
	"github.com/sarchlab/akita/v4/tracing"
	"github.com/sarchlab/mgpusim/v4/amd/timing/cu"
)

// MetricsMirror attaches, to a timing platform, the tracers that
// amd/samples/runner/report.go attaches under -report-all, with the same
// component selection and filters, and renders the rows the reporter would
// write to mgpusim_metrics. The tracers themselves are the repository's and
// akita's (cu.CPIStackTracer, tracing.BusyTimeTracer, AverageTimeTracer,
// StepCountTracer); the runner's two private tracers (instruction count, DRAM
// transaction count) are package-private and are replaced by plain counters.
type MetricsMirror struct {
	rows []func(add func(group, loc, what string, v float64))
}

type instCounter struct{ inflight map[string]bool; count, simd uint64; lastSIMD bool }

func (t *instCounter) StartTask(task tracing.Task) {
	if task.Kind != "inst" {
		return
	}
	t.lastSIMD = task.What == "VALU"
	t.inflight[task.ID] = true
}
func (t *instCounter) StepTask(tracing.Task)          {}
func (t *instCounter) AddMilestone(tracing.Milestone) {}
func (t *instCounter) EndTask(task tracing.Task) {
	if !t.inflight[task.ID] {
		return
	}
	if t.lastSIMD {
		t.simd++
	}
	delete(t.inflight, task.ID)
	t.count++
}

type dramCounter struct{ inflight map[string]string; reads, writes uint64 }

func (t *dramCounter) StartTask(task tracing.Task)     { t.inflight[task.ID] = task.What }
func (t *dramCounter) StepTask(tracing.Task)          {}
func (t *dramCounter) AddMilestone(tracing.Milestone) {}
func (t *dramCounter) EndTask(task tracing.Task) {
	switch t.inflight[task.ID] {
	case "*mem.ReadReq":
		t.reads++
	case "*mem.WriteReq":
		t.writes++
	}
	delete(t.inflight, task.ID)
}

// AttachMetrics installs the tracers; call it after the platform is built and
// before the workload starts.
func AttachMetrics(p *Platform) *MetricsMirror {
	m := &MetricsMirror{}
	eng := p.Sim.GetEngine()
	hook := func(c sim.Component) tracing.NamedHookable { return c.(tracing.NamedHookable) }
	if d := p.Sim.GetComponentByName("Driver"); d != nil {
		t := tracing.NewBusyTimeTracer(eng, func(task tracing.Task) bool { return task.What == "*driver.LaunchKernelCommand" })
		tracing.CollectTrace(hook(d), t)
		m.rows = append(m.rows, func(add func(string, string, string, float64)) { add("kernel_time", "Driver", "kernel_time", float64(t.BusyTime())) })
	}
	for _, comp := range p.Sim.Components() {
		comp := comp
		name := comp.Name()
		if strings.Contains(name, "CommandProcessor") {
			t := tracing.NewBusyTimeTracer(eng, func(task tracing.Task) bool { return task.What == "*protocol.LaunchKernelReq" })
			tracing.CollectTrace(hook(comp), t)
			m.rows = append(m.rows, func(add func(string, string, string, float64)) { add("kernel_time", name, "kernel_time", float64(t.BusyTime())) })
		}
		if c, ok := comp.(*cu.ComputeUnit); ok && strings.Contains(name, "CU") {
			ic := &instCounter{inflight: map[string]bool{}}
			tracing.CollectTrace(c, ic)
			st := cu.NewCPIStackInstHook(c, eng)
			tracing.CollectTrace(c, st)
			m.rows = append(m.rows, func(add func(string, string, string, float64)) {
				add("inst_count", name, "cu_inst_count", float64(ic.count))
				add("inst_count", name, "simd_inst_count", float64(ic.simd))
				for k, v := range st.GetCPIStack() {
					add("cpi_stack", name, "CPIStack."+k, v)
				}
				for k, v := range st.GetSIMDCPIStack() {
					add("cpi_stack", name, "SIMDCPIStack."+k, v)
				}
			})
		}
		if strings.Contains(name, "Cache") {
			lat := tracing.NewAverageTimeTracer(eng, func(task tracing.Task) bool { return task.Kind == "req_in" })
			sc := tracing.NewStepCountTracer(func(tracing.Task) bool { return true })
			tracing.CollectTrace(hook(comp), lat)
			tracing.CollectTrace(hook(comp), sc)
			m.rows = append(m.rows, func(add func(string, string, string, float64)) {
				add("cache_latency", name, "req_average_latency", float64(lat.AverageTime()))
				for _, s := range []string{"read-hit", "read-miss", "read-mshr-hit", "write-hit", "write-miss", "write-mshr-hit"} {
					add("cache_hit_rate", name, s, float64(sc.GetStepCount(s)))
				}
			})
		}
		if strings.Contains(name, "TLB") {
			sc := tracing.NewStepCountTracer(func(tracing.Task) bool { return true })
			tracing.CollectTrace(hook(comp), sc)
			m.rows = append(m.rows, func(add func(string, string, string, float64)) {
				for _, s := range []string{"hit", "miss", "mshr-hit"} {
					add("tlb_hit_rate", name, s, float64(sc.GetStepCount(s)))
				}
			})
		}
		if strings.Contains(name, "RDMA") {
			in := tracing.NewAverageTimeTracer(eng, func(task tracing.Task) bool {
				return task.Kind == "req_in" && strings.Contains(string(task.Detail.(sim.Msg).Meta().Src), "RDMA")
			})
			out := tracing.NewAverageTimeTracer(eng, func(task tracing.Task) bool {
				return task.Kind == "req_in" && !strings.Contains(string(task.Detail.(sim.Msg).Meta().Src), "RDMA")
			})
			tracing.CollectTrace(hook(comp), in)
			tracing.CollectTrace(hook(comp), out)
			m.rows = append(m.rows, func(add func(string, string, string, float64)) {
				add("rdma", name, "incoming_trans_count", float64(in.TotalCount()))
				add("rdma", name, "outgoing_trans_count", float64(out.TotalCount()))
				add("rdma", name, "incoming_avg_latency", float64(in.AverageTime()))
				add("rdma", name, "outgoing_avg_latency", float64(out.AverageTime()))
			})
		}
		if strings.Contains(name, "DRAM") {
			dc := &dramCounter{inflight: map[string]string{}}
			tracing.CollectTrace(hook(comp), dc)
			m.rows = append(m.rows, func(add func(string, string, string, float64)) {
				add("dram", name, "read_trans_count", float64(dc.reads))
				add("dram", name, "write_trans_count", float64(dc.writes))
			})
		}
		if strings.Contains(name, "SIMD") {
			bt := tracing.NewBusyTimeTracer(eng, func(task tracing.Task) bool { return task.Kind == "pipeline" })
			tracing.CollectTrace(hook(comp), bt)
			m.rows = append(m.rows, func(add func(string, string, string, float64)) { add("simd_busy_time", name, "busy_time", float64(bt.BusyTime())) })
		}
	}
	return m
}

// Digests renders every row and returns one digest per group of counters
// (bit-exact on the float64 values) and the number of rows.
func (m *MetricsMirror) Digests() (map[string]string, int) {
	byGroup := map[string][]string{}
	n := 0
	for _, f := range m.rows {
		f(func(group, loc, what string, v float64) {
			byGroup[group] = append(byGroup[group], fmt.Sprintf("%s|%s|%016x", loc, what, math.Float64bits(v)))
			n++
		})
	}
	out := map[string]string{}
	for g, rows := range byGroup {
		sort.Strings(rows)
		h := fnv.New64a()
		for _, r := range rows {
			h.Write([]byte(r))
			h.Write([]byte{'\n'})
		}
		out[g] = fmt.Sprintf("%016x", h.Sum64())
	}
	return out, n
}
