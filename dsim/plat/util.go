package plat

import (
	"strings"

	"github.com/sarchlab/akita/v4/sim"

	"verif/dsim/harness"
)

func digestString(s string) uint64 {
	h := uint64(1469598103934665603)
	for i := 0; i < len(s); i++ {
		h = (h ^ uint64(s[i])) * 1099511628211
	}
	return h
}

func splitN(s, sep string, n int) []string {
	p := strings.SplitN(s, sep, n)
	for len(p) < n {
		p = append(p, "")
	}
	return p
}

func contains(s, sub string) bool { return strings.Contains(s, sub) }

// ClassifyExit turns a child process that the code under test terminated
// (log.Fatal, atexit.Exit after a recovered panic in the engine goroutine)
// into a verdict.
func ClassifyExit(phase string, code int, output string) harness.Result {
	if i := strings.Index(output, "Panic: "); i >= 0 {
		msg := output[i:]
		if j := strings.Index(msg, "\n"); j > 0 {
			msg = msg[:j]
		}
		site := "unknown"
		// first frame of the code under test after the panic call
		rest := output[i:]
		if k := strings.Index(rest, "panic("); k >= 0 {
			for _, l := range strings.Split(rest[k:], "\n")[1:] {
				if strings.HasPrefix(l, "\t") || l == "" || strings.HasPrefix(l, "runtime.") || strings.HasPrefix(l, "log.") ||
					strings.HasPrefix(l, "panic(") || strings.HasPrefix(l, "github.com/sarchlab/akita/v4/sim.") {
					continue
				}
				site = l
				if p := strings.LastIndex(site, "("); p > 0 {
					site = site[:p]
				}
				break
			}
		}
		if phase == "selftest" {
			return harness.Result{HarnessBug: "panic during the probe self-test (the instrument is in question): " + msg + " @ " + site}
		}
		if strings.Contains(site, "verif/dsim/") {
			return harness.Result{HarnessBug: "panic in harness code inside an engine event: " + msg + " @ " + site}
		}
		return harness.Result{Rule: "PANIC", Signature: site, Detail: msg + " (panic inside an engine event, phase " + phase + ")", Log: tailLines(output, 40)}
	}
	if strings.Contains(output, "fatal error: all goroutines are asleep") {
		return harness.Result{Rule: "LIVE", Signature: "go-runtime-deadlock", Detail: "Go runtime reported deadlock", Log: tailLines(output, 30)}
	}
	return harness.Result{}
}

func tailLines(s string, n int) []string {
	l := strings.Split(strings.TrimSpace(s), "\n")
	if len(l) > n {
		l = l[len(l)-n:]
	}
	return l
}

type hookObj struct{ f func(ctx sim.HookCtx) }

func hookFunc(f func(ctx sim.HookCtx)) sim.Hook { return &hookObj{f} }

func (h *hookObj) Func(ctx sim.HookCtx) { h.f(ctx) }
