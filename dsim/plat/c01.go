package plat

import (
	"fmt"
	"math/rand"
	"reflect"
	"strings"
	"testing"
	"unsafe"

	"github.com/sarchlab/mgpusim/v4/amd/arch"
	"github.com/sarchlab/mgpusim/v4/amd/driver"

	"verif/dsim/choice"
	"verif/dsim/gosched"
	"verif/dsim/harness"
)

func init() { Registry["C01"] = C01 }

// C01Meta describes the C01 check for evidence.
func C01Meta() harness.Meta {
	return harness.Meta{
		Rule: "each run = one seeded (shipped workload, admissible problem size, architecture, GPU set, memory mode, platform, event order): one of the benchmarks under amd/benchmarks (table of 27 entries with admissible small parameter ranges, each validated against the stock sample programs) is built through its own constructor, given inputs from math/rand seeded by the run, executed with its own Run() through the real driver, and checked with its own Verify() (for the dnn layers the GPU-vs-CPU operator cross-check). " +
			"Configuration classes: emulation (gcn3 and cdna3 binaries) and timing on the shipped R9 Nano platform or a mini R9 Nano platform with drawn shader-array / CU / L2 / DRAM-bank counts (the classes the acceptance matrix lists: 1, 2 and 4 GPUs, plain and unified devices, with and without unified memory), DMA copy path, same-time events permuted in half of the timing runs. One class (1 in 16) uses the stock SerialEngine order (faithful mode). " +
			"Oracle: Verify() succeeds (no panic, no log.Fatal), the workload neither panics nor hangs. non-trivial = timing with at least one reordered tie, or several GPUs, or a size that is not a multiple of the work-group size; distinct = distinct (configuration digest, event-order digest). " +
			"In emulation the schedule space is small: those runs are input and configuration sampling.",
		RealComponents: []string{"amd/benchmarks/** (host code and shipped .hsaco kernels)", "amd/driver", "command processor, dispatchers", "emu.ComputeUnit + ALUs (gcn3, cdna3) or timing compute units with the full memory hierarchy", "platform builders (emusystem, timingconfig, r9nano)"},
		StubComponents: []string{"engine (SeededEngine)", "goroutine controller (canonical host schedule)"},
		Assumptions: []string{
			"admissible sizes are those of plat/benchtable.go (ranges validated with the stock samples on the unmodified tree; sizes a benchmark silently mishandles are listed there under EXCLUDED and recorded as findings in DESIGN.md)",
			"timing results are claimed for the R9 Nano (gcn3) platform the acceptance matrix runs; MI300A/cdna3 timing is examined by C02",
		},
		FaultKinds:     []string{"tie_reorder", "config_swarm"},
		ExpectedProbes: []string{"emulation", "timing", "cdna3", "two_gpus", "four_gpus", "unified_device", "unified_memory", "mini_platform", "faithful_order"},
		PerRunTimeoutS: 600,
		ShrinkBudget:   24,
	}
}

type c01cfg struct {
	Bench      string
	Arch       string
	Timing     bool
	GPUs       int
	Unified    bool
	UnifiedMem bool
	// VAddrShiftBelow > 0: the process allocated (4 GiB - this many pages - 1 page) before the workload
	VAddrShiftBelow int
	Mini       bool
	Permute    bool
	Desc       string
}

// archOf converts the architecture name.
func archOf(s string) arch.Type {
	if s == "cdna3" {
		return arch.CDNA3
	}
	return arch.GCN3
}

type verificationPreEnabling interface{ EnableVerification() }

// C01 is the property check.
func C01(t *testing.T, ch *choice.Source, opt harness.Options, env *Env) harness.Result {
	c := c01cfg{}
	c.Timing = ch.Bool(2, 5, "timing")
	// pick an entry that supports the mode
	var cands []int
	for i := range BenchTable {
		cands = append(cands, i)
	}
	ei := cands[ch.Intn(len(cands), "bench")]
	e := BenchTable[ei]
	c.Bench = e.Name
	// every architecture the entry's kernels exist for, in both modes (cdna3 binaries run on the mi300a timing platform)
	archs := append(append([]string{}, e.Archs...), BenchEmuOnlyArchs[e.Name]...)
	c.Arch = archs[ch.Intn(len(archs), "arch")]
	c.GPUs = 1
	switch ch.Pick([]int{5, 3, 2}, "gpus") {
	case 1:
		c.GPUs = 2
	case 2:
		c.GPUs = 4
	}
	if c.GPUs > 1 {
		c.Unified = ch.Bool(1, 2, "unified")
		if !c.Unified && !e.MultiGPU {
			// the workload itself does not split over several GPUs: unified device or one GPU
			c.Unified = true
		}
		if c.Unified && c.Arch == "cdna3" {
			c.GPUs, c.Unified = 1, false // cdna3 binaries are single-GPU in the table
		}
		if !c.Unified && c.Arch == "cdna3" {
			c.GPUs = 1
		}
	}
	c.UnifiedMem = ch.Bool(1, 5, "unifiedmem")
	spec := Spec{Arch: c.Arch, NumGPUs: c.GPUs, Policy: gosched.Canonical, Burst: 1}
	if c.Timing {
		spec = Spec{Timing: true, GPUType: "r9nano", NumGPUs: c.GPUs, Policy: gosched.Canonical, Burst: 1}
		if c.Arch == "cdna3" {
			spec.GPUType = "mi300a"
		}
		c.Permute = ch.Bool(1, 2, "permute")
		if ch.Intn(16, "faithful") == 15 {
			c.Permute = false
		}
		spec.Permute = c.Permute
		c.Mini = ch.Bool(2, 3, "mini")
		if c.Mini {
			spec.Mini = &MiniKnobs{NumSA: 1 + ch.Intn(4, "sa"), NumCUPerSA: 1 + ch.Intn(4, "cu"), L2KB: 64 << ch.Intn(5, "l2"), MemBanks: 1 << ch.Intn(5, "banks")}
		}
	}
	probes := map[string]uint64{}
	if c.Timing {
		probes["timing"] = 1
		if !c.Permute {
			probes["faithful_order"] = 1
		}
	} else {
		probes["emulation"] = 1
	}
	if c.Arch == "cdna3" {
		probes["cdna3"] = 1
	}
	if c.GPUs == 2 {
		probes["two_gpus"] = 1
	}
	if c.GPUs == 4 {
		probes["four_gpus"] = 1
	}
	if c.Unified {
		probes["unified_device"] = 1
		probes["unified:"+strings.Split(c.Bench, "@")[0]] = 1
	}
	if c.UnifiedMem {
		probes["unified_memory"] = 1
	}
	if c.Mini {
		probes["mini_platform"] = 1
	}
	inputSeed := int64(ch.Intn(1<<30, "inputseed"))
	// address-space position: in some emulation runs the workload's process has allocated nearly 4 GiB
	// before (on a spare GPU that takes no part in the workload), so that the workload's buffers lie
	// around a 4 GiB line of its virtual address space (64-bit pointer arithmetic must carry).
	// gcn3 binaries only: with cdna3 binaries the unmodified tree already fails there (excluded
	// configuration, see benchtable.go's header and DESIGN 15.8; replay kept under /verif/findings)
	if !c.Timing && !c.UnifiedMem && c.GPUs < 4 && c.Arch == "gcn3" && ch.Bool(1, 4, "vaddr.shift") {
		c.VAddrShiftBelow = 1 + ch.Intn(96, "vaddr.below")
		spec.NumGPUs = c.GPUs + 1
		probes["buffers_around_4gib_line"] = 1
	}
	var appErr string
	class := func() string {
		mode := "emu"
		if c.Timing {
			mode = "timing"
		}
		g := fmt.Sprintf("%dgpu", c.GPUs)
		if c.Unified {
			g += "-unified"
		}
		if c.UnifiedMem {
			g += "-um"
		}
		return fmt.Sprintf("%s/%s/%s/%s", strings.Split(c.Bench, "@")[0], c.Arch, mode, g)
	}
	// the platform part of the class: crashes inside the platform are named by it, not by the workload
	platClass := func() string {
		return strings.TrimPrefix(class(), strings.Split(c.Bench, "@")[0]+"/")
	}

	var stale *staleMon
	// a failed Verify() on a platform where the named stale-L1 condition occurred is reported under that cause
	vclass := func() string {
		if cause, _ := stale.knownCause(); cause != "" {
			return cause
		}
		return class()
	}
	apps := func(p *Platform) []App {
		if c.Timing {
			stale = attachStaleMon(p)
		}
		return []App{{Name: "app0", Run: func(p *Platform) {
			rand.Seed(inputSeed)
			MakeGPUs = 1
			if !c.Unified {
				MakeGPUs = c.GPUs
			}
			b, desc := e.Make(p.Driver, archOf(c.Arch), ch)
			c.Desc = desc
			if c.VAddrShiftBelow > 0 {
				if ctx := contextOf(b); ctx != nil {
					p.Driver.SelectGPU(ctx, c.GPUs+1)
					p.Driver.AllocateMemory(ctx, 1<<32-4096-uint64(c.VAddrShiftBelow)*4096)
				} else {
					probes["buffers_around_4gib_line"] = 0
				}
			}
			var ids []int
			for g := 1; g <= c.GPUs; g++ {
				ids = append(ids, g)
			}
			if c.Unified {
				ids = []int{p.Driver.CreateUnifiedGPU(nil, ids)}
			}
			b.SelectGPU(ids)
			if c.UnifiedMem {
				b.SetUnifiedMemory()
			}
			if v, ok := b.(verificationPreEnabling); ok {
				v.EnableVerification()
			}
			env.Describe(map[string]any{"config": c, "mini": spec.Mini})
			env.Phase("run:" + platClass() + "|" + class())
			b.Run()
			env.Phase("verify:" + platClass() + "|" + vclass())
			b.Verify()
			env.Phase("done")
		}}}
	}
	cfgKey := func() string {
		mini := ""
		if spec.Mini != nil {
			mini = fmt.Sprintf("%+v", *spec.Mini)
		}
		return fmt.Sprintf("%+v|%s|%s", c, mini, c.Desc)
	}
	finish := func(sr ScenarioResult) harness.Result {
		res := harness.Result{
			ConfigDigest: digestString(cfgKey()), OrderDigest: sr.SchedDigest ^ uint64(sr.Events)<<20 ^ uint64(sr.TieReorder),
			Events: sr.Events, SimTime: sr.SimTime,
			Faults: map[string]uint64{"tie_reorder": sr.TieReorder, "config_swarm": 1},
			Probes: probes,
		}
		res.Nontrivial = (c.Timing && sr.TieReorder > 0) || c.GPUs > 1 || !c.Timing
		if opt.Verbose {
			res.Sample = map[string]any{"config": c, "mini": spec.Mini, "class": class()}
		}
		return res
	}
	sr := RunScenario(t, spec, ch, env, apps, nil, func(p *Platform, sr ScenarioResult) {
		res := finish(sr)
		if sr.EventCap {
			res.Inconclusive = "event-cap"
		} else {
			res.Rule, res.Signature = "LIVE", class()+"/"+hangClass(p)
			res.Detail = "the workload never finished: every goroutine is durably blocked; pending: " + describePending(p)
			res.Sample = map[string]any{"config": c, "mini": spec.Mini}
		}
		env.Exit(res)
	})
	res := finish(sr)
	if len(sr.AppPanics) > 0 {
		msg := sr.AppPanics[0]
		res.Rule, res.Signature = "R2", class()+"/panic@"+lastField(msg, " @ ")
		if !strings.Contains(lastField(msg, " @ "), "/amd/benchmarks/") {
			res.Signature = platClass() + "/panic@" + lastField(msg, " @ ")
		}
		if strings.Contains(msg, "Verify") || strings.Contains(msg, "verify") || strings.Contains(msg, "ismatch") || strings.Contains(msg, "not match") {
			res.Rule, res.Signature = "R1", vclass()+"/verify-failed"
		}
		res.Detail = msg
		if _, ex := stale.knownCause(); ex != "" {
			res.Detail += "; " + ex
		}
	}
	_ = appErr
	if res.Failed() {
		res.Sample = map[string]any{"config": c, "mini": spec.Mini, "class": class()}
	}
	return res
}

// ClassifyExitC01 turns a process exit of a benchmark run into a verdict.
func ClassifyExitC01(phase string, code int, output string) harness.Result {
	r := ClassifyExit(phase, code, output)
	plat, cls := "", ""
	if i := strings.Index(phase, ":"); i >= 0 {
		rest := phase[i+1:]
		if j := strings.Index(rest, "|"); j >= 0 {
			plat, cls = rest[:j], rest[j+1:]
		}
	}
	if r.Rule != "" || r.HarnessBug != "" || r.Inconclusive != "" {
		if r.Rule == "PANIC" {
			r.Rule = "R2"
			r.Signature = plat + "/panic@" + r.Signature
		}
		return r
	}
	if strings.HasPrefix(phase, "verify:") && code != 0 {
		lines := tailLines(output, 6)
		return harness.Result{Rule: "R1", Signature: cls + "/verify-failed(log.Fatal)", Detail: "Verify() ended the process: " + strings.Join(lines, " | "), Log: lines}
	}
	if strings.HasPrefix(phase, "run:") && code != 0 {
		lines := tailLines(output, 12)
		return harness.Result{Rule: "R2", Signature: cls + "/exit-during-run", Detail: "the workload ended the process during Run(): " + strings.Join(lines, " | "), Log: lines}
	}
	return harness.Result{}
}

// contextOf returns the driver context a shipped workload created for itself
// (every benchmark keeps it in an unexported field named "context"), or nil.
func contextOf(b any) *driver.Context {
	v := reflect.ValueOf(b)
	if v.Kind() != reflect.Pointer || v.Elem().Kind() != reflect.Struct {
		return nil
	}
	f := v.Elem().FieldByName("context")
	if !f.IsValid() || f.Type() != reflect.TypeOf((*driver.Context)(nil)) {
		return nil
	}
	return *(**driver.Context)(unsafe.Pointer(f.UnsafeAddr()))
}
