package plat

import (
	"fmt"
	"testing"

	"github.com/sarchlab/akita/v4/sim"
	"github.com/sarchlab/akita/v4/tracing"
	"github.com/sarchlab/mgpusim/v4/amd/driver"
	"github.com/sarchlab/mgpusim/v4/amd/protocol"
	"github.com/sarchlab/mgpusim/v4/amd/timing/cu"
	"github.com/sarchlab/mgpusim/v4/amd/timing/wavefront"

	"verif/dsim/choice"
	"verif/dsim/gosched"
	"verif/dsim/harness"
	"verif/dsim/kasm"
)

func init() { Registry["C14"] = C14 }

// C14Meta describes the C14 check for evidence.
func C14Meta() harness.Meta {
	return harness.Meta{
		Rule: "each run = one seeded (mini timing platform, program, occupancy, event order): the real timing compute unit (scheduler, arbiters, all execution units, scoreboard) with its real memory hierarchy, on an R9 Nano-style GPU reduced to 1-2 compute units so that many work-groups are resident on one unit, runs a generated program (kasm): " +
			"(a) work-group exchange through LDS with 1-16 wavefronts per group, 1-3 rounds of write / barrier / read-partner / barrier, optionally with wavefronts that end before the first barrier; (b) two global loads into sentinel-initialised registers followed by s_waitcnt vmcnt(1) / vmcnt(0) and a scalar load with lgkmcnt(0) before the dependent uses; (c) the empty kernel. 1-24 work-groups per launch, same-time events permuted in half of the runs; one run in 6 executes on the emulator (reference for the programs). " +
			"Oracles: values (the program's Go closure; an early barrier or wait count yields a stale LDS slot or a sentinel), the issue trace of every wavefront (no instruction after a wavefront's e-th barrier starts before every other unfinished wavefront of the group started its e-th barrier), one WGCompletionMsg per MapWGReq sent after the last wavefront's s_endpgm started, termination. " +
			"non-trivial = at least 2 wavefronts per group or at least 12 resident wavefronts on a unit; distinct = distinct (configuration digest, event-order digest)",
		RealComponents: []string{"amd/timing/cu.ComputeUnit (scheduler, issue/fetch arbiters, decode units, SIMD/scalar/branch/LDS/vector-memory units, scoreboard, wavefront dispatcher)", "amd/timing/wavefront", "shared emu.ALU", "command processor + dispatcher", "L1/L2 caches, TLBs, address translators, ROBs, DRAM, MMU of the mini platform", "driver"},
		StubComponents: []string{"engine (SeededEngine)", "goroutine controller (canonical schedule)", "generated programs (kasm)", "issue-trace monitor (akita tracing.Tracer)"},
		Assumptions: []string{
			"memory latencies are those of the real hierarchy under permuted event order (no adversarial memory stub in this harness); the wait-count rule is decided through values, not through the unit's own counters",
			"a wavefront that ends before a barrier the others still reach is legal (the property exempts finished wavefronts)",
		},
		FaultKinds:     []string{"tie_reorder", "config_swarm"},
		ExpectedProbes: []string{"barrier_program", "waitcnt_program", "empty_program", "early_exit_before_barrier", "sixteen_or_more_wavefronts_waiting", "full_occupancy", "scoreboard_on", "emulator_reference", "two_cus"},
		PerRunTimeoutS: 240,
		ShrinkBudget:   40,
	}
}

type c14cfg struct {
	Spec      Spec
	Kind      int // 0 barrier, 1 waitcnt, 2 empty
	NWf       int
	Rounds    int
	EarlyExit uint
	NumWG     int
}

type instEvent struct {
	seq   uint64
	wf    *wavefront.Wavefront
	name  string
	start bool
}

type c14tracer struct {
	seq    uint64
	events []instEvent
}

func (t *c14tracer) StartTask(task tracing.Task) {
	if task.Kind != "inst" {
		return
	}
	d, ok := task.Detail.(map[string]interface{})
	if !ok {
		return
	}
	in, _ := d["inst"].(*wavefront.Inst)
	wf, _ := d["wf"].(*wavefront.Wavefront)
	if in == nil || wf == nil {
		return
	}
	t.seq++
	t.events = append(t.events, instEvent{seq: t.seq, wf: wf, name: in.InstName, start: true})
}
func (t *c14tracer) StepTask(tracing.Task)          {}
func (t *c14tracer) AddMilestone(tracing.Milestone) {}
func (t *c14tracer) EndTask(tracing.Task)           {}

// C14 is the property check.
func C14(t *testing.T, ch *choice.Source, opt harness.Options, env *Env) harness.Result {
	c := c14cfg{Kind: ch.Pick([]int{6, 3, 1}, "kind")}
	knobs := &MiniKnobs{NumSA: 1, NumCUPerSA: 1 + ch.Intn(2, "cus"), L2KB: 64 << ch.Intn(4, "l2"), MemBanks: 1 << ch.Intn(4, "banks")}
	c.Spec = Spec{Timing: true, GPUType: "r9nano", NumGPUs: 1, Mini: knobs, Policy: gosched.Canonical, Burst: 1, Permute: ch.Bool(1, 2, "permute")}
	emuRef := ch.Intn(6, "emu") == 5
	if emuRef {
		c.Spec = Spec{Arch: "gcn3", NumGPUs: 1, Policy: gosched.Canonical, Burst: 1}
	}
	c.NWf = 1 + ch.Intn(16, "nwf")
	if ch.Bool(1, 2, "nwf.small") {
		c.NWf = 1 + ch.Intn(4, "nwf.s")
	}
	c.Rounds = 1 + ch.Intn(3, "rounds")
	c.NumWG = 1 + ch.Intn(24, "numwg")
	if c.Kind == 0 && c.NWf > 1 && ch.Bool(1, 4, "earlyexit") {
		c.EarlyExit = uint(1+ch.Intn(1<<uint(c.NWf)-2, "exitmask")) & (1<<uint(c.NWf) - 1)
		if c.EarlyExit == 1<<uint(c.NWf)-1 {
			c.EarlyExit &^= 1 // at least one wavefront stays
		}
	}
	specNoPtr := c.Spec
	specNoPtr.Mini = nil // a pointer would print as an address
	cfgDigest := digestString(fmt.Sprintf("%+v %d %d %d %v %d %+v %+v", specNoPtr, c.Kind, c.NWf, c.Rounds, c.EarlyExit, c.NumWG, *knobs, emuRef))
	probes := map[string]uint64{}
	switch c.Kind {
	case 0:
		probes["barrier_program"] = 1
	case 1:
		probes["waitcnt_program"] = 1
	case 2:
		probes["empty_program"] = 1
	}
	if c.EarlyExit != 0 {
		probes["early_exit_before_barrier"] = 1
	}
	if emuRef {
		probes["emulator_reference"] = 1
	}
	if knobs.NumCUPerSA == 2 && !emuRef {
		probes["two_cus"] = 1
	}

	var problem *harness.Result
	fail := func(rule, sig, format string, a ...any) {
		if problem == nil {
			problem = &harness.Result{Rule: rule, Signature: sig, Detail: fmt.Sprintf(format, a...)}
		}
	}
	tracer := &c14tracer{}
	mapReqs := map[string]int{}   // MapWGReq id -> completions seen
	mapSeq := map[string]uint64{} // MapWGReq id -> tracer seq at completion
	var listing []string
	maxWaiting := 0

	apps := func(p *Platform) []App {
		// attach the issue-trace monitor and the completion monitor to every CU
		for _, comp := range p.Sim.Components() {
			unit, ok := comp.(*cu.ComputeUnit)
			if !ok {
				continue
			}
			tracing.CollectTrace(unit, tracer)
			unit.ToACE.AcceptHook(hookFunc(func(ctx sim.HookCtx) {
				switch m := ctx.Item.(type) {
				case *protocol.MapWGReq:
					if ctx.Pos == sim.HookPosPortMsgRecvd {
						if _, ok := mapReqs[m.ID]; !ok {
							mapReqs[m.ID] = 0
						}
					}
				case *protocol.WGCompletionMsg:
					if ctx.Pos == sim.HookPosPortMsgSend {
						for _, id := range m.RspTo {
							mapReqs[id]++
							mapSeq[id] = tracer.seq
							// termination: no memory operation of the work-group may still be in flight
							for _, info := range unit.InFlightScalarMemAccess {
								if info.Wavefront != nil && info.Wavefront.WG != nil && info.Wavefront.WG.MapReq != nil && info.Wavefront.WG.MapReq.ID == id {
									fail("R4", "work-group-completed-with-memory-access-in-flight/scalar", "completion of a work-group reported while a scalar load of one of its wavefronts (first work-item %d) is still in flight", info.Wavefront.FirstWiFlatID)
								}
							}
							for _, info := range unit.InFlightVectorMemAccess {
								if info.Wavefront != nil && info.Wavefront.WG != nil && info.Wavefront.WG.MapReq != nil && info.Wavefront.WG.MapReq.ID == id {
									fail("R4", "work-group-completed-with-memory-access-in-flight/vector", "completion of a work-group reported while a vector memory access of one of its wavefronts (first work-item %d) is still in flight", info.Wavefront.FirstWiFlatID)
								}
							}
						}
					}
				}
			}))
		}
		return []App{{Name: "app0", Run: func(p *Platform) {
			d := p.Driver
			ctx := d.Init()
			d.SelectGPU(ctx, 1)
			switch c.Kind {
			case 0:
				co, expect, l, err := kasm.BarrierExchange(c.NWf, c.Rounds, c.EarlyExit)
				if err != nil {
					harness.Bug("kasm: %v", err)
				}
				listing = l
				n := 64 * c.NWf
				total := n * c.NumWG
				out := d.AllocateMemory(ctx, uint64(total*4))
				fill := make([]uint32, total)
				for i := range fill {
					fill[i] = 0xffffffff
				}
				d.MemCopyH2D(ctx, out, fill)
				args := kasm.OutArgs{Out: uint64(out)}
				env.Phase("kernel")
				d.LaunchKernel(ctx, co, [3]uint32{uint32(total), 1, 1}, [3]uint16{uint16(n), 1, 1}, &args)
				got := make([]uint32, total)
				d.MemCopyD2H(ctx, got, out)
				want := make([]uint32, n)
				for wg := 0; wg < c.NumWG && problem == nil; wg++ {
					expect(wg, want)
					for i := 0; i < n; i++ {
						if got[wg*n+i] != want[i] {
							fail("R3", "barrier-exchange-value-wrong", "work-group %d item %d (wavefront %d): out=%#x, the program's reference gives %#x (stale LDS slot: a wavefront passed a barrier early, or a lost write)", wg, i, i/64, got[wg*n+i], want[i])
							break
						}
					}
				}
			case 1:
				wgSize := 64 * c.NWf
				if wgSize > 1024 {
					wgSize = 1024
				}
				late := (c.NumWG + c.NWf) % 4
				co, l, err := kasm.WaitCount(wgSize, late)
				if err != nil {
					harness.Bug("kasm: %v", err)
				}
				listing = l
				total := wgSize * c.NumWG
				in := make([]uint32, 2*total)
				for i := range in {
					in[i] = uint32(i*13+5) & 0x3fffff
				}
				dIn := d.AllocateMemory(ctx, uint64(len(in)*4))
				dOut := d.AllocateMemory(ctx, uint64(total*4))
				d.MemCopyH2D(ctx, dIn, in)
				d.MemCopyH2D(ctx, dOut, make([]uint32, total))
				k := uint32(1000 + c.NumWG)
				args := kasm.WaitArgs{In: uint64(dIn), Out: uint64(dOut), K: k, N: uint32(total)}
				env.Phase("kernel")
				d.LaunchKernel(ctx, co, [3]uint32{uint32(total), 1, 1}, [3]uint16{uint16(wgSize), 1, 1}, &args)
				got := make([]uint32, total)
				d.MemCopyD2H(ctx, got, dOut)
				for g := 0; g < total; g++ {
					want := in[g]*5 + in[g+total] + k
					if late == 1 || late == 2 {
						want += uint32(total)
					}
					if got[g] != want {
						fail("R3", "waitcnt-value-wrong", "work-item %d: out=%#x, expected %#x = in[g]*5 + in[g+N] + K (+ N loaded late, variant %d) (a dependant ran before its load returned: sentinel 0xdead00/0xbeef00/0xc0de00 or K missing)", g, got[g], want, late)
						break
					}
				}
			case 2:
				co, err := kasm.Empty()
				if err != nil {
					harness.Bug("kasm: %v", err)
				}
				out := d.AllocateMemory(ctx, 64)
				args := kasm.OutArgs{Out: uint64(out)}
				env.Phase("kernel")
				d.LaunchKernel(ctx, co, [3]uint32{uint32(64 * c.NWf * c.NumWG), 1, 1}, [3]uint16{uint16(min(1024, 64*c.NWf)), 1, 1}, &args)
			}
		}}}
	}

	analyse := func() {
		if problem != nil || emuRef {
			return
		}
		// R5: exactly one completion per MapWGReq
		for id, n := range mapReqs {
			if n != 1 {
				fail("R5", "wg-completion-not-once", "a MapWGReq (%s) got %d WGCompletionMsg", "id", n)
				_ = id
				return
			}
		}
		// R1: barrier ordering on the issue trace
		type wfState struct {
			barriers int
			ended    bool
		}
		type wgState struct {
			wfs map[*wavefront.Wavefront]*wfState
			all []*wavefront.Wavefront
		}
		wgs := map[*wavefront.WorkGroup]*wgState{}
		for _, e := range tracer.events {
			g := wgs[e.wf.WG]
			if g == nil {
				g = &wgState{wfs: map[*wavefront.Wavefront]*wfState{}}
				wgs[e.wf.WG] = g
				for _, w := range e.wf.WG.Wfs {
					g.wfs[w] = &wfState{}
					g.all = append(g.all, w)
				}
			}
			st := g.wfs[e.wf]
			if st == nil {
				st = &wfState{}
				g.wfs[e.wf] = st
				g.all = append(g.all, e.wf)
			}
			switch e.name {
			case "s_barrier":
				st.barriers++
				waiting := 0
				for _, og := range wgs {
					for _, o := range og.all {
						s := og.wfs[o]
						if !s.ended && s.barriers > 0 {
							waiting++
						}
					}
				}
				_ = waiting
			case "s_endpgm":
				st.ended = true
			default:
				if st.barriers > 0 {
					for _, o := range g.all {
						os := g.wfs[o]
						if o != e.wf && !os.ended && os.barriers < st.barriers {
							fail("R1", "instruction-issued-past-barrier-early", "a wavefront issued %s after its barrier %d while another unfinished wavefront of the group had reached only %d barriers (trace event %d)", e.name, st.barriers, os.barriers, e.seq)
							return
						}
					}
				}
			}
		}
	}

	finish := func(sr ScenarioResult) harness.Result {
		res := harness.Result{
			ConfigDigest: cfgDigest, OrderDigest: sr.SchedDigest ^ uint64(sr.Events)<<20 ^ uint64(sr.TieReorder),
			Events: sr.Events, SimTime: sr.SimTime,
			Faults: map[string]uint64{"tie_reorder": sr.TieReorder, "config_swarm": 1},
			Probes: probes,
		}
		resident := c.NWf * c.NumWG
		if !emuRef && resident >= 16 && c.Kind == 0 {
			probes["sixteen_or_more_wavefronts_waiting"] = 1
		}
		if !emuRef && resident >= 40*knobs.NumCUPerSA {
			probes["full_occupancy"] = 1
		}
		_ = maxWaiting
		res.Nontrivial = c.NWf >= 2 || resident >= 12
		if opt.Verbose {
			res.Sample = map[string]any{"config": c, "mini": knobs, "emulator": emuRef}
		}
		return res
	}
	sr := RunScenario(t, c.Spec, ch, env, apps, nil, func(p *Platform, sr ScenarioResult) {
		res := finish(sr)
		if sr.EventCap {
			res.Inconclusive = "event-cap"
		} else {
			res.Rule, res.Signature = "LIVE", hangClass(p)
			if c.EarlyExit != 0 {
				res.Signature += "/early-exit-before-barrier"
			}
			if emuRef {
				res.Signature += "/emulator"
			}
			res.Detail = "the kernel never completed (a barrier or wait count was never released, or the completion was never reported); pending: " + describePending(p)
			res.Sample = map[string]any{"config": c, "mini": knobs, "emulator": emuRef}
			res.Log = listing
		}
		env.Exit(res)
	})
	analyse()
	res := finish(sr)
	if len(sr.AppPanics) > 0 {
		res.Rule, res.Signature, res.Detail = "PANIC", "app-thread-panic/"+lastField(sr.AppPanics[0], " @ "), sr.AppPanics[0]
	} else if problem != nil {
		res.Rule, res.Signature, res.Detail = problem.Rule, problem.Signature, problem.Detail
		if emuRef {
			res.Signature += "/emulator"
		}
		if c.EarlyExit != 0 {
			res.Signature += "/early-exit-before-barrier"
		}
	}
	if res.Failed() {
		res.Sample = map[string]any{"config": c, "mini": knobs, "emulator": emuRef}
		res.Log = listing
	}
	_ = driver.Ptr(0)
	return res
}
