package plat

import (
	"fmt"
	"strings"

	"github.com/sarchlab/akita/v4/mem/cache/writearound"
	"github.com/sarchlab/akita/v4/mem/cache/writeback"
	"github.com/sarchlab/akita/v4/mem/cache/writeevict"
	"github.com/sarchlab/akita/v4/mem/cache/writethrough"
	"github.com/sarchlab/akita/v4/mem/mem"
	"github.com/sarchlab/akita/v4/sim"
	"github.com/sarchlab/mgpusim/v4/amd/protocol"
)

// staleMon diagnoses one specific cause of emulation/timing differences on
// timing platforms: a per-CU first-level cache answers a read from a line it
// fetched before another CU's cache wrote bytes of that line in an EARLIER
// kernel (first-level caches are write-through and are only invalidated by the
// flush that precedes a memory copy, never between kernels). It watches the
// top, bottom and control ports of every first-level vector and scalar cache.
// It only observes; verdicts never depend on it except for naming the cause
// of a mismatch that was found by the ordinary oracle.
type staleMon struct {
	seq    uint64
	kernel int
	// per cache: line -> sequence number of the last fetch sent down
	fetch map[string]map[uint64]uint64
	// per line: writes sent down by first-level caches
	writes map[uint64][]staleWrite
	// per cache: pending reads at the top port by message id
	pending map[string]map[string]staleRead

	// StaleHits counts reads answered from a line that another CU wrote, in
	// an earlier kernel, after this cache fetched it, where the bytes overlap.
	StaleHits uint64
	Example   string

	// L2Overtakes counts reads that a second-level (write-back) cache answered
	// although a write to the same line that it had RECEIVED EARLIER was not yet
	// acknowledged, with data that lacks that write's bytes: the read overtook
	// the write inside the cache (same-address order lost).
	L2Overtakes uint64
	L2Example   string
	l2writes    map[string]map[string]*l2write // cache -> write id -> write
	l2reads     map[string]map[string]l2read   // cache -> read id -> read
}

type l2write struct {
	line uint64
	seq  uint64
	off  uint64
	data []byte
	mask []bool
}

type l2read struct {
	addr uint64
	seq  uint64
}

// l2OvertakeCause is the signature suffix naming this diagnosed cause.
const l2OvertakeCause = "timing-l2-read-overtook-earlier-write-to-same-line"

func (m *staleMon) attachL2(c sim.Component) {
	name := c.Name()
	top := c.GetPortByName("Top")
	if top == nil {
		return
	}
	if m.l2writes == nil {
		m.l2writes = map[string]map[string]*l2write{}
		m.l2reads = map[string]map[string]l2read{}
	}
	m.l2writes[name] = map[string]*l2write{}
	m.l2reads[name] = map[string]l2read{}
	top.AcceptHook(hookFunc(func(ctx sim.HookCtx) {
		switch ctx.Pos {
		case sim.HookPosPortMsgRecvd:
			m.seq++
			switch r := ctx.Item.(type) {
			case *mem.WriteReq:
				mask := r.DirtyMask
				if mask == nil {
					mask = make([]bool, len(r.Data))
					for i := range mask {
						mask[i] = true
					}
				}
				m.l2writes[name][r.ID] = &l2write{line: r.Address >> 6, seq: m.seq, off: r.Address & 63, data: append([]byte{}, r.Data...), mask: mask}
			case *mem.ReadReq:
				m.l2reads[name][r.ID] = l2read{addr: r.Address, seq: m.seq}
			}
		case sim.HookPosPortMsgSend:
			switch r := ctx.Item.(type) {
			case *mem.WriteDoneRsp:
				delete(m.l2writes[name], r.RespondTo)
			case *mem.DataReadyRsp:
				rd, ok := m.l2reads[name][r.RespondTo]
				if !ok {
					return
				}
				delete(m.l2reads[name], r.RespondTo)
				for id, w := range m.l2writes[name] {
					if w.line != rd.addr>>6 || w.seq > rd.seq {
						continue
					}
					// an earlier-received, still unacknowledged write to the line: does the answer contain it?
					for i := range w.data {
						pos := int64(w.off) + int64(i) - int64(rd.addr&63)
						if !w.mask[i] || pos < 0 || pos >= int64(len(r.Data)) {
							continue
						}
						if r.Data[pos] != w.data[i] {
							m.L2Overtakes++
							if m.L2Example == "" {
								m.L2Example = fmt.Sprintf("%s answered a read of line %#x (received after write %s to the same line) before that write was applied: byte %d is %#x, the write carries %#x", name, rd.addr&^63, id, pos, r.Data[pos], w.data[i])
							}
							return
						}
					}
				}
			}
		}
	}))
}

type staleWrite struct {
	seq    uint64
	by     string
	kernel int
	mask   uint64
}

type staleRead struct {
	line uint64
	mask uint64
	seq  uint64
}

func byteMask(addr, n uint64) uint64 {
	off := addr & 63
	if n >= 64 {
		return ^uint64(0)
	}
	if off+n > 64 {
		n = 64 - off
	}
	return ((uint64(1) << n) - 1) << off
}

func attachStaleMon(p *Platform) *staleMon {
	m := &staleMon{fetch: map[string]map[uint64]uint64{}, writes: map[uint64][]staleWrite{}, pending: map[string]map[string]staleRead{}}
	p.Driver.GetPortByName("GPU").AcceptHook(hookFunc(func(ctx sim.HookCtx) {
		if ctx.Pos == sim.HookPosPortMsgSend {
			if _, ok := ctx.Item.(*protocol.LaunchKernelReq); ok {
				m.kernel++
			}
		}
	}))
	for _, comp := range p.Sim.Components() {
		if wb, ok := comp.(*writeback.Comp); ok && strings.Contains(wb.Name(), "L2Cache") {
			m.attachL2(wb)
			continue
		}
		var c sim.Component
		switch cc := comp.(type) {
		case *writethrough.Comp:
			c = cc
		case *writearound.Comp:
			c = cc
		case *writeevict.Comp:
			c = cc
		default:
			continue
		}
		name := c.Name()
		if !strings.Contains(name, "L1VCache") && !strings.Contains(name, "L1SCache") {
			continue
		}
		m.fetch[name] = map[uint64]uint64{}
		m.pending[name] = map[string]staleRead{}
		c.GetPortByName("Control").AcceptHook(hookFunc(func(ctx sim.HookCtx) {
			if ctx.Pos == sim.HookPosPortMsgRecvd {
				m.fetch[name] = map[uint64]uint64{}
			}
		}))
		c.GetPortByName("Bottom").AcceptHook(hookFunc(func(ctx sim.HookCtx) {
			if ctx.Pos != sim.HookPosPortMsgSend {
				return
			}
			m.seq++
			switch r := ctx.Item.(type) {
			case *mem.ReadReq:
				m.fetch[name][r.Address>>6] = m.seq
			case *mem.WriteReq:
				var mask uint64
				if r.DirtyMask != nil {
					for i, d := range r.DirtyMask {
						if d && (r.Address&63)+uint64(i) < 64 {
							mask |= 1 << ((r.Address & 63) + uint64(i))
						}
					}
				} else {
					mask = byteMask(r.Address, uint64(len(r.Data)))
				}
				line := r.Address >> 6
				m.writes[line] = append(m.writes[line], staleWrite{m.seq, name, m.kernel, mask})
			}
		}))
		c.GetPortByName("Top").AcceptHook(hookFunc(func(ctx sim.HookCtx) {
			switch ctx.Pos {
			case sim.HookPosPortMsgRetrieveIncoming:
				if r, ok := ctx.Item.(*mem.ReadReq); ok {
					m.seq++
					m.pending[name][r.ID] = staleRead{r.Address >> 6, byteMask(r.Address, r.AccessByteSize), m.seq}
				}
			case sim.HookPosPortMsgSend:
				rsp, ok := ctx.Item.(*mem.DataReadyRsp)
				if !ok {
					return
				}
				rd, ok := m.pending[name][rsp.RespondTo]
				if !ok {
					return
				}
				delete(m.pending[name], rsp.RespondTo)
				f, cached := m.fetch[name][rd.line]
				if !cached {
					return
				}
				for _, w := range m.writes[rd.line] {
					if w.by != name && w.seq > f && w.seq < rd.seq && w.kernel < m.kernel && w.mask&rd.mask != 0 {
						m.StaleHits++
						if m.Example == "" {
							m.Example = fmt.Sprintf("%s answered a read of line %#x in kernel %d from a copy fetched before %s wrote the same bytes in kernel %d", name, rd.line<<6, m.kernel, w.by, w.kernel)
						}
						break
					}
				}
			}
		}))
	}
	return m
}

// staleL1Cause is the signature suffix naming the diagnosed cause.
const staleL1Cause = "timing-l1-copy-older-than-another-cus-write-in-earlier-kernel"

// knownCause names the diagnosed cause observed in this run, if any ("" otherwise), and a description of the
// first observation. The second-level overtake takes precedence (it is the rarer, more specific observation).
func (m *staleMon) knownCause() (cause, example string) {
	if m == nil {
		return "", ""
	}
	if m.L2Overtakes > 0 {
		return l2OvertakeCause, fmt.Sprintf("%d reads overtook an earlier write in a second-level cache, first: %s", m.L2Overtakes, m.L2Example)
	}
	if m.StaleHits > 0 {
		return staleL1Cause, fmt.Sprintf("%d stale first-level-cache reads, first: %s", m.StaleHits, m.Example)
	}
	return "", ""
}
