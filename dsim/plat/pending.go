package plat

import (
	"fmt"
	"reflect"
	"strings"
	"unsafe"

	"github.com/sarchlab/mgpusim/v4/amd/driver"
)

func unexported(v reflect.Value, name string) reflect.Value {
	f := v.FieldByName(name)
	if !f.IsValid() {
		return f
	}
	return reflect.NewAt(f.Type(), unsafe.Pointer(f.UnsafeAddr())).Elem()
}

type queueState struct {
	n        int
	running  bool
	headType string
	reqTypes []string
}

// driverQueues reads (read only, through reflection) the state of every
// command queue the driver knows: used only to describe and classify a hang.
func driverQueues(d *driver.Driver) []queueState {
	var out []queueState
	dv := reflect.ValueOf(d).Elem()
	ctxs := unexported(dv, "contexts")
	if !ctxs.IsValid() {
		return nil
	}
	for i := 0; i < ctxs.Len(); i++ {
		qs := unexported(ctxs.Index(i).Elem(), "queues")
		for j := 0; j < qs.Len(); j++ {
			q := qs.Index(j).Interface().(*driver.CommandQueue)
			st := queueState{n: q.NumCommand(), running: q.IsRunning}
			if cmd := q.Peek(); cmd != nil {
				st.headType = strings.TrimPrefix(reflect.TypeOf(cmd).String(), "*driver.")
				for _, r := range cmd.GetReqs() {
					st.reqTypes = append(st.reqTypes, strings.TrimPrefix(reflect.TypeOf(r).String(), "*protocol."))
				}
			}
			out = append(out, st)
		}
	}
	return out
}

// hangClass names a hang by what is pending in the driver.
func hangClass(p *Platform) string {
	if p.Engine.Pending() > 0 {
		return "engine-exit"
	}
	for _, q := range driverQueues(p.Driver) {
		if q.n == 0 {
			continue
		}
		if q.running && len(q.reqTypes) == 0 {
			return "driver-cmd-stuck/" + q.headType + "/no-outstanding-request"
		}
		if q.running {
			return "driver-cmd-stuck/" + q.headType + "/unanswered:" + q.reqTypes[0]
		}
		return "driver-cmd-not-started/" + q.headType
	}
	return "lost-notify-or-other"
}

func describePending(p *Platform) string {
	var parts []string
	for i, q := range driverQueues(p.Driver) {
		if q.n == 0 {
			continue
		}
		parts = append(parts, fmt.Sprintf("queue %d: %d commands, running=%v, head %s waiting for %v", i, q.n, q.running, q.headType, q.reqTypes))
	}
	if len(parts) == 0 {
		return "no command queued"
	}
	return strings.Join(parts, "; ")
}

func lastField(s, sep string) string {
	if i := strings.LastIndex(s, sep); i >= 0 {
		return s[i+len(sep):]
	}
	return s
}
