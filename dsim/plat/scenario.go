package plat

import (
	"encoding/json"
	"fmt"
	"os"
	"runtime/debug"
	"strings"
	"sync"
	"testing"
	"testing/synctest"

	"verif/dsim/choice"
	"verif/dsim/gosched"
	"verif/dsim/harness"
)

// App is one application thread of a scenario.
type App struct {
	Name string
	Run  func(p *Platform)
}

// ScenarioResult is what one bubble produced.
type ScenarioResult struct {
	Outcome     gosched.Outcome
	AppPanics   []string // "name: message @ site"
	Events      uint64
	SimTime     float64
	Steps       int
	Switches    int
	SchedDigest uint64
	TieReorder  uint64
	PointHits   map[string]int
	Trace       []string
	EventCap    bool
}

// Exit writes the result and leaves the process at once. Used when the bubble
// cannot be left normally (goroutines blocked for good after a deadlock).
func (e *Env) Exit(res harness.Result) {
	res.Draws = e.ch.Draws()
	out, _ := json.Marshal(harness.JobResult{Res: res, Consumed: e.ch.Trace()})
	_ = os.WriteFile(e.job.Out, out, 0o644)
	os.Exit(0)
}

func panicSite(stack string) string {
	lines := strings.Split(stack, "\n")
	seen := false
	for _, l := range lines {
		if strings.HasPrefix(l, "panic(") {
			seen = true
			continue
		}
		if !seen || strings.HasPrefix(l, "\t") || l == "" {
			continue
		}
		if strings.HasPrefix(l, "runtime.") || strings.HasPrefix(l, "log.") || strings.HasPrefix(l, "fmt.") ||
			strings.HasPrefix(l, "github.com/sarchlab/akita/v4/sim.") {
			continue
		}
		if p := strings.LastIndex(l, "("); p > 0 {
			return l[:p]
		}
		return l
	}
	return "unknown"
}

// RunScenario builds the platform inside a synctest bubble, starts the real
// driver threads, runs the application threads under the controller and
// returns what happened. after, when set, runs inside the bubble once the
// workload has finished (never after a deadlock). onStuck is called, still
// inside the bubble, when the run deadlocked or hit a cap: it must end the
// process through Env.Exit.
func RunScenario(
	t *testing.T, spec Spec, ch *choice.Source, env *Env,
	apps func(p *Platform) []App,
	after func(p *Platform),
	onStuck func(p *Platform, sr ScenarioResult),
) (sr ScenarioResult) {
	synctest.Test(t, func(t *testing.T) {
		p := Build(spec, ch, env.Scratch)
		p.Engine.MaxEvents = 40_000_000
		p.Driver.Run()
		var mu sync.Mutex
		list := apps(p)
		remaining := len(list)
		for _, a := range list {
			a := a
			p.Sched.Go(a.Name, func() {
				defer func() {
					if r := recover(); r != nil {
						if hb, ok := r.(harness.HarnessBugPanic); ok {
							panic(hb)
						}
						site := panicSite(string(debug.Stack()))
						mu.Lock()
						sr.AppPanics = append(sr.AppPanics, fmt.Sprintf("%s: %v @ %s", a.Name, r, site))
						mu.Unlock()
					}
					mu.Lock()
					remaining--
					mu.Unlock()
				}()
				a.Run(p)
			})
		}
		out := p.Sched.Run(func() bool {
			mu.Lock()
			defer mu.Unlock()
			return remaining == 0
		})
		sr.Outcome = out
		if !out.Deadlock && !out.StepsCap {
			// from here on nobody parks any more
			driverYieldOff()
			p.Engine.BeforeEvent = nil
		}
		sr.Events = p.Engine.Stats.Events
		sr.SimTime = float64(p.Engine.CurrentTime())
		sr.Steps = p.Sched.Steps
		sr.Switches = p.Sched.Switches
		sr.SchedDigest = p.Sched.Digest()
		sr.TieReorder = p.Engine.Stats.TieReordered + p.Engine.Stats.SecReordered
		sr.PointHits = p.Sched.PointHits
		sr.Trace = p.Sched.Trace
		sr.EventCap = p.Engine.Stats.CapHit
		if out.Deadlock || out.StepsCap {
			onStuck(p, sr)
			// not reached
			os.Exit(3)
		}
		if after != nil {
			after(p)
		}
		p.Driver.Terminate()
		p.Sim.Terminate()
	})
	return sr
}
