// Package plat assembles whole mgpusim platforms (emulation and timing) from
// the repository's public builders on the seeded engine, and runs the real
// driver threads under the goroutine controller inside a synctest bubble.
// Its test binary (go test -c) is the worker process of every whole-platform
// property check: one simulation per process.
package plat

import (
	"fmt"
	"reflect"
	"unsafe"

	"github.com/sarchlab/akita/v4/sim"
	"github.com/sarchlab/akita/v4/simulation"
	"github.com/sarchlab/mgpusim/v4/amd/arch"
	"github.com/sarchlab/mgpusim/v4/amd/driver"
	"github.com/sarchlab/mgpusim/v4/amd/samples/runner/emusystem"
	"github.com/sarchlab/mgpusim/v4/amd/samples/runner/timingconfig"

	"verif/dsim/choice"
	"verif/dsim/gosched"
	"verif/dsim/harness"
	"verif/dsim/simengine"
)

// Spec describes the platform of a run.
type Spec struct {
	Timing    bool
	GPUType   string // "r9nano" or "mi300a" (timing)
	Arch      string // "gcn3" or "cdna3" (emulation)
	NumGPUs   int
	MagicCopy bool // timing only; emulation always uses the direct-storage copy path
	Permute   bool // same-time events in drawn order
	Policy    gosched.Policy
	Burst     int
}

// Platform is an assembled system.
type Platform struct {
	Spec   Spec
	Sim    *simulation.Simulation
	Engine *simengine.SeededEngine
	Driver *driver.Driver
	Sched  *gosched.Sched
}

// injectEngine overwrites the unexported engine field of the akita simulation.
func injectEngine(s *simulation.Simulation, e sim.Engine) {
	f := reflect.ValueOf(s).Elem().FieldByName("engine")
	if !f.IsValid() || f.Type().String() != "sim.Engine" {
		harness.Bug("akita simulation.Simulation has no field engine of type sim.Engine (akita layout changed)")
	}
	reflect.NewAt(f.Type(), unsafe.Pointer(f.UnsafeAddr())).Elem().Set(reflect.ValueOf(e))
	if s.GetEngine() != e {
		harness.Bug("engine injection failed")
	}
}

// Build assembles the platform. It must be called inside the synctest bubble.
func Build(spec Spec, ch *choice.Source, scratch string) *Platform {
	p := &Platform{Spec: spec}
	mode := simengine.Faithful
	if spec.Permute {
		mode = simengine.Permute
	}
	p.Engine = simengine.New(mode, ch)
	p.Sched = gosched.New(ch, spec.Policy)
	p.Sched.EngineBurstMax = spec.Burst
	p.Engine.BeforeEvent = p.Sched.EngineYield

	p.Sim = simulation.MakeBuilder().WithoutMonitoring().WithOutputFileName(scratch + "/akita_sim").Build()
	injectEngine(p.Sim, p.Engine)

	if spec.Timing {
		b := timingconfig.MakeBuilder().WithSimulation(p.Sim).WithNumGPUs(spec.NumGPUs).WithGPUType(spec.GPUType)
		if spec.MagicCopy {
			b = b.WithMagicMemoryCopy()
		}
		b.Build()
	} else {
		a := arch.GCN3
		if spec.Arch == "cdna3" {
			a = arch.CDNA3
		}
		emusystem.MakeBuilder().WithSimulation(p.Sim).WithNumGPUs(spec.NumGPUs).WithArchitecture(a).Build()
	}
	p.Driver = p.Sim.GetComponentByName("Driver").(*driver.Driver)
	driver.VerifYield = p.Sched.Yield
	return p
}

// Describe renders the spec.
func (s Spec) Describe() string {
	return fmt.Sprintf("%+v", s)
}

func driverYieldOff() { driver.VerifYield = nil }
