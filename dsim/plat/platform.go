// Package plat assembles whole mgpusim platforms (emulation and timing) from
// the repository's public builders on the seeded engine, and runs the real
// driver threads under the goroutine controller inside a synctest bubble.
// Its test binary (go test -c) is the worker process of every whole-platform
// property check: one simulation per process.
package plat

import (
	"os"
	"fmt"
	"reflect"
	"unsafe"

	"github.com/sarchlab/akita/v4/mem/mem"
	"github.com/sarchlab/akita/v4/mem/vm"
	"github.com/sarchlab/akita/v4/mem/vm/mmu"
	"github.com/sarchlab/akita/v4/noc/networking/pcie"
	"github.com/sarchlab/akita/v4/sim"
	"github.com/sarchlab/akita/v4/simulation"
	"github.com/sarchlab/mgpusim/v4/amd/arch"
	"github.com/sarchlab/mgpusim/v4/amd/driver"
	"github.com/sarchlab/mgpusim/v4/amd/samples/runner/emusystem"
	"github.com/sarchlab/mgpusim/v4/amd/samples/runner/timingconfig"
	"github.com/sarchlab/mgpusim/v4/amd/samples/runner/timingconfig/gpubuilder"
	"github.com/sarchlab/mgpusim/v4/amd/samples/runner/timingconfig/mi300a"
	"github.com/sarchlab/mgpusim/v4/amd/samples/runner/timingconfig/r9nano"

	"verif/dsim/choice"
	"verif/dsim/gosched"
	"verif/dsim/harness"
	"verif/dsim/simengine"
)

// Spec describes the platform of a run.
type Spec struct {
	Timing    bool
	GPUType   string // "r9nano" or "mi300a" (timing)
	Arch      string // "gcn3" or "cdna3" (emulation)
	NumGPUs   int
	MagicCopy bool // timing only; emulation always uses the direct-storage copy path
	Permute   bool // same-time events in drawn order
	Policy    gosched.Policy
	Burst     int
	// Mini, when set, assembles the timing platform from the GPU builders with
	// these knobs instead of the shipped full-size configuration (wired exactly
	// as timingconfig.Builder.Build does).
	Mini *MiniKnobs
	// SchedSeed, when non-zero, gives the goroutine controller its own
	// decision stream (so that the host schedule can be varied while the
	// workload and the event order stay fixed).
	SchedSeed uint64
}

// MiniKnobs are the drawn parameters of a mini timing platform.
type MiniKnobs struct {
	NumSA, NumCUPerSA int
	L2KB              int
	MemBanks          int
	Log2CacheLine     uint64
	// H2DCycles / D2HCycles, when > 0, override the driver's copy start-up delays (driver.Builder knobs).
	H2DCycles, D2HCycles int
}

// debugAttach, when set (by a diagnosis file compiled into the test binary), is called with every built platform.
var debugAttach func(p *Platform)

// Platform is an assembled system.
type Platform struct {
	Spec   Spec
	Sim    *simulation.Simulation
	Engine *simengine.SeededEngine
	Driver *driver.Driver
	Sched  *gosched.Sched
}

// injectEngine overwrites the unexported engine field of the akita simulation.
func injectEngine(s *simulation.Simulation, e sim.Engine) {
	f := reflect.ValueOf(s).Elem().FieldByName("engine")
	if !f.IsValid() || f.Type().String() != "sim.Engine" {
		harness.Bug("akita simulation.Simulation has no field engine of type sim.Engine (akita layout changed)")
	}
	reflect.NewAt(f.Type(), unsafe.Pointer(f.UnsafeAddr())).Elem().Set(reflect.ValueOf(e))
	if s.GetEngine() != e {
		harness.Bug("engine injection failed")
	}
}

// Build assembles the platform. It must be called inside the synctest bubble.
func Build(spec Spec, ch *choice.Source, scratch string) *Platform {
	if f := os.Getenv("VERIF_DEBUG_SPEC"); f != "" && spec.Timing {
		// diagnosis aid only (never set by registered commands): "sa,cu,permute,mini" overrides the drawn timing platform shape
		var sa, cu int
		var permute, mini bool
		fmt.Sscanf(f, "%d,%d,%t,%t", &sa, &cu, &permute, &mini)
		spec.Permute = permute
		if !mini {
			spec.Mini = nil
		} else if spec.Mini != nil {
			k := *spec.Mini
			k.NumSA, k.NumCUPerSA = sa, cu
			spec.Mini = &k
		}
	}
	p := &Platform{Spec: spec}
	mode := simengine.Faithful
	if spec.Permute {
		mode = simengine.Permute
	}
	p.Engine = simengine.New(mode, ch)
	schedCh := ch
	if spec.SchedSeed != 0 {
		schedCh = choice.New(spec.SchedSeed)
	}
	p.Sched = gosched.New(schedCh, spec.Policy)
	p.Sched.EngineBurstMax = spec.Burst
	p.Engine.BeforeEvent = p.Sched.EngineYield
	// Pause / Continue are called by the driver's runAsync goroutine only
	p.Engine.OnPauseContinue = func(which string) { p.Sched.Yield("async.engine-" + which) }

	p.Sim = simulation.MakeBuilder().WithoutMonitoring().WithOutputFileName(scratch + "/akita_sim").Build()
	injectEngine(p.Sim, p.Engine)

	if spec.Timing && spec.Mini != nil {
		buildMiniTiming(p, spec)
	} else if spec.Timing {
		b := timingconfig.MakeBuilder().WithSimulation(p.Sim).WithNumGPUs(spec.NumGPUs).WithGPUType(spec.GPUType)
		if spec.MagicCopy {
			b = b.WithMagicMemoryCopy()
		}
		b.Build()
	} else {
		a := arch.GCN3
		if spec.Arch == "cdna3" {
			a = arch.CDNA3
		}
		emusystem.MakeBuilder().WithSimulation(p.Sim).WithNumGPUs(spec.NumGPUs).WithArchitecture(a).Build()
	}
	p.Driver = p.Sim.GetComponentByName("Driver").(*driver.Driver)
	driver.VerifYield = p.Sched.Yield
	if debugAttach != nil {
		debugAttach(p)
	}
	return p
}

// Describe renders the spec.
func (s Spec) Describe() string {
	return fmt.Sprintf("%+v", s)
}

func driverYieldOff() { driver.VerifYield = nil }

// buildMiniTiming wires a timing platform the way timingconfig.Builder.Build
// does, from the public GPU builders with reduced sizes.
func buildMiniTiming(p *Platform, spec Spec) {
	s := p.Sim
	eng := s.GetEngine()
	const gpuMem = 4 * mem.GB
	const log2Page = 12
	k := spec.Mini
	storage := mem.NewStorage(uint64(spec.NumGPUs)*gpuMem + gpuMem)
	pageTable := vm.NewPageTable(log2Page)
	mmuComp := mmu.MakeBuilder().WithEngine(eng).WithFreq(1 * sim.GHz).WithPageWalkingLatency(100).
		WithLog2PageSize(log2Page).WithPageTable(pageTable).Build("MMU")
	s.RegisterComponent(mmuComp)
	db := driver.MakeBuilder()
	if spec.MagicCopy {
		db = db.WithMagicMemoryCopyMiddleware()
	}
	d2h, h2d, swLat := 300, 500, 140
	if spec.GPUType == "mi300a" {
		d2h, h2d, swLat = 150, 250, 15
	}
	if k.H2DCycles > 0 {
		h2d = k.H2DCycles
	}
	if k.D2HCycles > 0 {
		d2h = k.D2HCycles
	}
	drv := db.WithEngine(eng).WithPageTable(pageTable).WithLog2PageSize(log2Page).WithGlobalStorage(storage).
		WithD2HCycles(d2h).WithH2DCycles(h2d).Build("Driver")
	s.RegisterComponent(drv)

	rdmaMapper := new(mem.BankedAddressPortMapper)
	rdmaMapper.BankSize = gpuMem
	rdmaMapper.LowModules = append(rdmaMapper.LowModules, sim.RemotePort("CPU"))

	var gb gpubuilder.GPUBuilder
	if spec.GPUType == "mi300a" {
		b := mi300a.MakeBuilder().WithSimulation(s).WithMMU(mmuComp).WithLog2PageSize(log2Page).WithGlobalStorage(storage).
			WithNumShaderArray(k.NumSA).WithNumCUPerShaderArray(k.NumCUPerSA)
		if k.L2KB > 0 {
			b = b.WithL2CacheSize(uint64(k.L2KB) * mem.KB)
		}
		if k.MemBanks > 0 {
			b = b.WithNumMemoryBank(k.MemBanks)
		}
		gb = b
	} else {
		b := r9nano.MakeBuilder().WithSimulation(s).WithMMU(mmuComp).WithLog2PageSize(log2Page).WithGlobalStorage(storage).
			WithNumShaderArray(k.NumSA).WithNumCUPerShaderArray(k.NumCUPerSA)
		if k.L2KB > 0 {
			b = b.WithL2CacheSize(uint64(k.L2KB) * mem.KB)
		}
		if k.MemBanks > 0 {
			b = b.WithNumMemoryBank(k.MemBanks)
		}
		gb = b
	}

	conn := pcie.NewConnector().WithEngine(eng).WithVersion(4, 16).WithSwitchLatency(swLat)
	conn.CreateNetwork("PCIe")
	root := conn.AddRootComplex([]sim.Port{
		drv.GetPortByName("GPU"), drv.GetPortByName("MMU"),
		mmuComp.GetPortByName("Migration"), mmuComp.GetPortByName("Top"),
	})
	mmuComp.MigrationServiceProvider = drv.GetPortByName("MMU").AsRemote()

	sw := root
	for i := 1; i <= spec.NumGPUs; i++ {
		if i%2 == 1 {
			sw = conn.AddSwitch(root)
		}
		gpu := gb.WithGPUID(uint64(i)).WithMemAddrOffset(uint64(i) * gpuMem).WithRDMAAddressMapper(rdmaMapper).
			Build(fmt.Sprintf("GPU[%d]", i))
		drv.RegisterGPU(gpu.GetPortByName("CommandProcessor"), driver.DeviceProperties{
			CUCount: k.NumSA * k.NumCUPerSA, DRAMSize: gpuMem,
		})
		rdmaMapper.LowModules = append(rdmaMapper.LowModules, gpu.GetPortByName("RDMAData").AsRemote())
		conn.PlugInDevice(sw, gpu.Ports())
	}
	conn.EstablishRoute()
}
