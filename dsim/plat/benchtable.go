package plat

// Table of the workloads shipped under /repo/amd/benchmarks together with
// generators of ADMISSIBLE, SMALL problem configurations.
//
// Every range below was validated with the stock sample programs
// (/repo/amd/samples/<name>, `-verify -disable-rtm`) on the unmodified tree:
// emulation for every architecture listed in Archs, the timing platform
// (`-timing` for gcn3/r9nano, `-timing -gpu=mi300a -arch=cdna3` for cdna3) for
// a few configurations per entry, and `-gpus=1,2[,3,4]` for MultiGPU entries.
// In addition this table itself was run through the sample runner (972 runs,
// all passing): per entry and architecture the all-zero, the all-maximum and
// several random decision sequences in emulation and on the timing platform,
// MultiGPU entries also with 2, 3, 4 GPUs (emulation and timing) and with
// MakeGPUCounts={1,2,4} on 1, 2 and 4 GPUs, plus -unified-gpus=1,2[,3,4] and
// -use-unified-memory for every entry. Slowest runs: about 1 s in emulation
// (4-GPU platform), about 10 s on the timing platform (kmeans, atax, bfs at
// their maxima; the maxima were lowered a little after that).
//
// Conventions
//   - A draw of 0 always selects the smallest / simplest value, so the all-zero
//     decision sequence gives the smallest admissible configuration.
//   - Every property of an entry (Archs, MultiGPU, RaceFree, Elementwise) holds
//     for EVERY architecture in its Archs, in emulation AND on the timing
//     platform. Where cdna3 works on one GPU only (see EXCLUDED 2) the cdna3
//     binary has its own single-GPU entry named "<name>@cdna3". Where cdna3
//     passes in emulation but fails on the timing platform it is listed in
//     BenchEmuOnlyArchs (Make accepts arch.CDNA3 for those entries too).
//   - MakeGPUs (default 1) is the number of GPUs the caller is going to pass to
//     SelectGPU (non-unified); MakeGPUCounts, when set, lists several such
//     counts. Make of a MultiGPU entry draws only sizes that are admissible for
//     these counts (every GPU gets a non-empty, equal share). With MakeGPUs==1
//     the all-zero configuration is the smallest one.
//
// Things a caller has to know
//   - dnn/layer_benchmarks/{conv2d,im2col}: Verify() is empty; the check is
//     done inside Run() after EnableVerification() has been called on the
//     benchmark (the sample runner does that when -verify is given). Make does
//     not call it.
//   - heteromark/kmeans: Verify prints "Passsed, RMSE ..." on stderr and calls
//     log.Fatal("error") (process exit) on a mismatch; rodinia/nw: Verify prints
//     nothing on success; shoc/fft: Verify cannot fail (see OTHER FINDINGS).
//   - Inputs: under go >= 1.24 rand.Seed is a no-op (GODEBUG randseednop=1), so
//     ALL inputs drawn from math/rand differ from process to process, also in
//     the benchmarks that call rand.Seed: bitonicsort, fastwalshtransform,
//     floydwarshall, matrixmultiplication, nbody, aes, kmeans, pagerank and spmv
//     (csr generator), nw, fft, im2col, conv2d (weights). Deterministic inputs:
//     matrixtranspose, simpleconvolution, vectoradd, fir, atax, bicg, bfs
//     (private rand.New(42)), stencil2d, relu.
//   - atax (tmp[i] +=, y[j] +=) relies on freshly allocated device memory
//     being zero.
//
// EXCLUDED (fails on the unmodified tree):
//
//  1. Empty grid -> nil pointer panic in the command processor. Any multi-GPU
//     benchmark given fewer work-items than GPUs launches a 0-work-item kernel:
//     `bitonicsort -length=2 -gpus=1,2 -verify -disable-rtm` (also -length=4
//     -gpus=1,2,3,4): Panic: nil pointer dereference in
//     resource.(*CUResourceImpl).ReserveResourceForWG <- roundRobinAlgorithm.Next
//     <- DispatcherImpl.dispatchNextWG. Same for `stencil2d -row=8 -col=64`
//     (grid x = 8/16 = 0). The generators give every GPU >= 1 work-item.
//
//  2. cdna3 + several GPUs (-gpus=1,2) gives wrong results wherever the work is
//     split with the hidden global offset (the HIP kernels compute the global id
//     from block id and block size and ignore HiddenGlobalOffsetX, so GPU 2
//     recomputes the part of GPU 1 and the second half is never written):
//     `bitonicsort -length=64 -gpus=1,2 -arch=cdna3` (array not sorted),
//     `simpleconvolution -width=16 -height=16 -mask-size=1 -gpus=1,2 -arch=cdna3`
//     (mismatch at 8,0: expected 1 get 0),
//     `fir -length=300 -taps=5 -gpus=1,2 -arch=cdna3` (position 150: get 0),
//     `aes -length=2080 -gpus=1,2 -arch=cdna3` (mismatch at position 0),
//     `kmeans -points=102 -clusters=3 -features=4 -max-iter=3 -gpus=1,2 -arch=cdna3`
//     (centroid mismatch panic),
//     `relu -length=300 -gpus=1,2 -arch=cdna3` (mismatch at 150),
//     `vectoradd -width=64 -height=2 -gpus=1,2` (either arch: gfx942 binary;
//     mismatch at position 64). All of these pass with gcn3 (vectoradd: 1 GPU).
//     Only matrixtranspose (explicit group offset argument) passes with
//     `-gpus=1,2,3,4 -arch=cdna3` (emulation).
//
//  3. cdna3 on the timing platform: every kernel that uses the work-item id in
//     y (2-D work-groups) computes wrong results, because
//     timing/cu/wfdispatcher.go writes x, y, z to v0, v1, v2 for all code
//     objects, whereas emu/computeunit.go packs them into v0 for V5 (gfx942)
//     code objects. All of these pass without -timing:
//     `floydwarshall -node=8 -iter=1 -timing -gpu=mi300a -arch=cdna3`
//     (Mismatch at row 1 col 6, expected 0 got 1),
//     `matrixtranspose -width=64 -timing -gpu=mi300a -arch=cdna3`
//     (mismatch at (0,4), expected 256 get 0),
//     `matrixmultiplication -x=32 -y=32 -z=32 -timing -gpu=mi300a -arch=cdna3`
//     (prints Passed!, but rows 4.. of C are 0 - see 7),
//     `stencil2d -row=16 -col=64 -iter=1 -timing -gpu=mi300a -arch=cdna3`
//     (not match at (1,2)),
//     `im2col -N=2 -C=3 -H=8 -W=8 -timing -gpu=mi300a -arch=cdna3 -verify`
//     (panic: value mismatch).
//
//  4. `aes -length=16 -timing -gpu=mi300a -arch=cdna3` (any length): Panic:
//     slice bounds out of range [:4] with capacity 1 in
//     cu.(*SimpleRegisterFile).Write <- (*ComputeUnit).handleVectorDataLoadReturn
//     (byte load). Passes in emulation.
//
//  5. floydwarshall with a node count that is not a multiple of 8: exec() rounds
//     the grid up AND passes the rounded number as the row pitch while the
//     buffers use the real pitch: `floydwarshall -node=5` (Mismatch at row 0
//     col 2, expected 5 got 3), also -node=7, 9, 12, 20. (-node=1, 2 pass by
//     luck.)
//
//  6. nw with 3 or more 64-blocks per side - including the benchmark's own
//     default 256: runKernel2 walks the lower-right anti-diagonals in
//     ascending order (Rodinia: descending), so block (2,2) is computed before
//     (1,2),(2,1): `nw -length=192` panic: mismatch at (129,129), expected -69,
//     but got -10; -length=256, 320 likewise; both archs. Only 64 and 128 pass.
//     (Lengths that are not multiples of 64 are not processed at all.)
//
//  7. matrixmultiplication: (a) Verify's inner loop is
//     `for j := uint32(0); i < mCPU.Width; i++` - only row 0 of C is ever
//     checked. An independent full check of b.MatrixC shows that (b) all rows
//     >= 32 are wrong for Y > 32 (`-x=32 -y=64 -z=32`: 1024 of 2048 elements
//     wrong; the kernel loads the A tile with the LOCAL y id, so every group
//     multiplies rows 0..31 of A), (c) therefore every split over GPUs is wrong
//     as well (`-x=32 -y=32 -z=32 -gpus=1,2`: 511 of 1024 wrong; the entry is
//     marked MultiGPU=false for that reason although Run() does partition),
//     (d) the cdna3 kernel uses ONE global scratch buffer (blockABuf) instead of
//     LDS, shared by all work-groups. Z that is not a multiple of 32:
//     `-x=64 -y=12 -z=12` mismatch at [0,0]. The generator keeps Y <= 32, X, Z
//     multiples of 32, Y a multiple of 4: those are right in all elements.
//
//  8. spmv -arch=cdna3 with more than one work-group (Dim > 128): execCDNA3
//     leaves HiddenGroupSizeX = 0, every group computes rows 0..127:
//     `spmv -dim=129 -sparsity=0.02 -arch=cdna3`: not match at (128), expected 0
//     to equal 5.556566 (also on the timing platform). cdna3 is limited to
//     Dim <= 128 here.
//
//  9. atax with NY > NX: x is allocated with NX elements on the host and NY
//     elements on the device but indexed up to NY: `atax -x=4 -y=8` panic: index
//     out of range [4] with length 4 (in cpuAtax). With NX > NY the H2D copy of
//     x writes NX floats into an NY-float allocation. Generator: NY <= NX <= 288.
//
// 10. im2col with a non-square image: GPUOperator.Im2Col takes width from
//     size[2] and height from size[3]: `im2col -N=2 -C=3 -H=8 -W=6 -verify` At
//     index 4, expected 0.433 but get 0.524, panic: value mismatch. (conv2d runs
//     the same operator but on an all-zero input, so it cannot notice.) Both
//     generators use H == W.
//
// 11. conv2d -enable-backward with a stride that does not divide
//     (H + 2*pad - kernel): `conv2d -N=1 -C=1 -H=6 -W=6 -stride-x=2 -stride-y=2
//     -enable-backward -verify` panic: mismatch in size src size [48] dst size
//     [27] in Conv2D.calculateWeightGradient. The generator only uses exact
//     divisions when backward is enabled.
//
// 12. conv2d -arch=cdna3 beyond the trivial shape: `conv2d -N=1 -C=2 -H=3 -W=3
//     -arch=cdna3 -verify` Panic: nil pointer dereference in
//     insts.(*Disassembler).decodeVOP2 right after "Im2Col verified.";
//     `conv2d -N=2 -C=3 -H=8 -W=8 -output-channel=4 -arch=cdna3` Panic: Register
//     type tbalo not supported. conv2d is listed for gcn3 only.
//
// 13. stencil2d with an interior column count that is not a multiple of 64
//     (SHOC requires it, the port does not check): `stencil2d -row=16 -col=30`
//     not match at (1,1); `stencil2d -row=16 -col=70` gcn3: Opcode 31 for VOP2
//     format (v_add_f16 v128, s0, v0) is not implemented (the kernel contains no
//     f16 code - the wavefront of the partial work-group runs off the code);
//     interior rows not a multiple of 16 (`-row=20`) leave rows unprocessed.
//
// 14. fastwalshtransform -gpus=1,2: Run() enqueues the WHOLE transform on every
//     queue over the same buffer (`fastwalshtransform -length=64 -gpus=1,2`
//     panic: Mismatch at 0); floydwarshall, nbody, pagerank, atax, bicg, bfs, fft,
//     spmv, stencil2d create one queue per GPU but launch on the context only.
//     All are MultiGPU=false.
//
// 15. Timing platform only (r9nano and mi300a), passes in emulation: a kernel
//     that re-reads a buffer which OTHER compute units have rewritten in an
//     earlier launch sees stale data (the command processor flushes/invalidates
//     the L1 caches only for the driver's FlushReq around memory copies, not
//     between kernel launches):
//     `bitonicsort -length=256 -timing` (512, 1024 too; Error: array[1] >
//     array[2]; 128 = one work-group passes; `-length=512 -gpus=1,2 -timing`
//     fails, `-length=512 -gpus=1,2,3,4 -timing` = one group per GPU passes;
//     `-length=512 -timing -gpu=mi300a -arch=cdna3` fails),
//     `floydwarshall -node=24 -iter=15 -timing`, `floydwarshall -node=32 -iter=16
//     -timing` (Mismatch at row 0 col 1, expected 2 got 9; -node=16 and -iter=1
//     pass),
//     `pagerank -node=24 -sparsity=1 -iterations=3 -timing` (every node count
//     > 16, i.e. more than one 64-byte line of ranks, with >= 3 iterations, both
//     platforms: Mismatch at 9, expected 0.015703, but get 0.015721; <= 2
//     iterations pass because no buffer is read twice).
//     nbody ping-pongs its buffers the same way but its 1e-3 tolerance cannot
//     see a position that is two steps old; stencil2d multiplies the halo by 0.
//
//  16. cdna3 binaries with buffers around a 4 GiB line of the process's virtual
//     address space (C01 draws that position for gcn3 only): after
//     AllocateMemory(ctx, 4 GiB - 2 pages) in the workload's own process,
//     matrixmultiplication cdna3 x=32 y=4 z=32 in emulation on one GPU fails
//     Verify (mismatch at [0, 0]: expected 9.192333, but get 0.000000); the same
//     run without the earlier allocation, and the gcn3 binary with it, pass.
//     Found by ./check C01 under batch seed 2 (run 873); minimised replay:
//     /verif/findings/C01-cdna3-buffers-around-4gib-line-matrixmultiplication-seed2-run873.json
//     (it reproduces with harness c01 as of /verif commit e9cca0d). Not root-caused
//     (widening v_mad_u64_u32's destination and third source in insts/decodetable.go
//     was tried and does not cure it; only this workload fails when the position is
//     forced on for every cdna3 emulation run).
//
// OTHER FINDINGS (no configuration excluded because of them)
//   - shoc/fft: Verify compares the two halves of the HOST input with each
//     other and never looks at the device result. An independent 512-point DFT
//     of b.source compared with b.result (reflection) agrees in only 32 of 512
//     bins per block on gcn3 and 8 of 512 on cdna3 (energy ratio is exactly 512,
//     i.e. wrong twiddle factors), emulation and timing alike.
//   - Flaky (about 1 run in 100, any benchmark, after "Passed!"): Panic:
//     assignment to entry in nil map in tracing.(*DBTracer).StartTask <-
//     Driver.logCmdStart; the driver goroutine still ticks while
//     Runner.Run tears the simulation down. Seen with nbody, pagerank, relu.
//   - dnn/training_benchmarks/xor is not in the table: no parameters (50 epochs
//     fixed, unexported), about 8 s in emulation, Verify() panics "not
//     implemented".

import (
	"strings"
	"fmt"
	"math"

	"github.com/sarchlab/mgpusim/v4/amd/arch"
	"github.com/sarchlab/mgpusim/v4/amd/benchmarks"
	"github.com/sarchlab/mgpusim/v4/amd/benchmarks/amdappsdk/bitonicsort"
	"github.com/sarchlab/mgpusim/v4/amd/benchmarks/amdappsdk/fastwalshtransform"
	"github.com/sarchlab/mgpusim/v4/amd/benchmarks/amdappsdk/floydwarshall"
	"github.com/sarchlab/mgpusim/v4/amd/benchmarks/amdappsdk/matrixmultiplication"
	"github.com/sarchlab/mgpusim/v4/amd/benchmarks/amdappsdk/matrixtranspose"
	"github.com/sarchlab/mgpusim/v4/amd/benchmarks/amdappsdk/nbody"
	"github.com/sarchlab/mgpusim/v4/amd/benchmarks/amdappsdk/simpleconvolution"
	"github.com/sarchlab/mgpusim/v4/amd/benchmarks/amdappsdk/vectoradd"
	"github.com/sarchlab/mgpusim/v4/amd/benchmarks/dnn/layer_benchmarks/conv2d"
	"github.com/sarchlab/mgpusim/v4/amd/benchmarks/dnn/layer_benchmarks/im2col"
	"github.com/sarchlab/mgpusim/v4/amd/benchmarks/dnn/layer_benchmarks/relu"
	"github.com/sarchlab/mgpusim/v4/amd/benchmarks/heteromark/aes"
	"github.com/sarchlab/mgpusim/v4/amd/benchmarks/heteromark/fir"
	"github.com/sarchlab/mgpusim/v4/amd/benchmarks/heteromark/kmeans"
	"github.com/sarchlab/mgpusim/v4/amd/benchmarks/heteromark/pagerank"
	"github.com/sarchlab/mgpusim/v4/amd/benchmarks/polybench/atax"
	"github.com/sarchlab/mgpusim/v4/amd/benchmarks/polybench/bicg"
	"github.com/sarchlab/mgpusim/v4/amd/benchmarks/rodinia/nw"
	"github.com/sarchlab/mgpusim/v4/amd/benchmarks/shoc/bfs"
	"github.com/sarchlab/mgpusim/v4/amd/benchmarks/shoc/fft"
	"github.com/sarchlab/mgpusim/v4/amd/benchmarks/shoc/spmv"
	"github.com/sarchlab/mgpusim/v4/amd/benchmarks/shoc/stencil2d"
	"github.com/sarchlab/mgpusim/v4/amd/driver"
)

// Drawer is the decision source (value 0 must always be the simplest/smallest
// choice).
type Drawer interface {
	Intn(n int, label string) int         // uniform in [0,n); n<=1 returns 0
	Bool(num, den int, label string) bool // true with probability num/den
}

// BenchEntry describes one shipped workload.
type BenchEntry struct {
	Name        string   // e.g. "heteromark/fir"
	Archs       []string // architectures for which the benchmark ships a kernel binary and works: "gcn3", "cdna3"
	MultiGPU    bool     // Run() distributes work over several GPUs when SelectGPU gets several ids (non-unified multi-GPU)
	RaceFree    bool     // its kernels have no inter-work-group data races and use no atomics (safe for bit-exact emu-vs-timing comparison)
	Elementwise bool     // every output element is computed by the same instruction sequence however work is spread over GPUs (so results are bit-identical for 1, 2, 4 GPUs)
	// Make constructs the benchmark with drawn admissible parameters (fields
	// set, SelectGPU NOT called, Run NOT called) and returns a one-line
	// description of the parameters.
	Make func(d *driver.Driver, a arch.Type, ch Drawer) (b benchmarks.Benchmark, desc string)
}

// MakeGPUs is the number of GPUs (1..4) the caller is going to hand to
// SelectGPU (non-unified) of the benchmark made next. Make of a MultiGPU entry
// draws only sizes admissible for that many GPUs (every GPU gets a non-empty,
// equal share). Entries with MultiGPU == false ignore it. With the default 1
// the all-zero configuration is the smallest one. A size drawn for 4 GPUs is in
// general NOT admissible for fewer (bitonicsort: Length <= 128*gpus on the
// timing platform; divisibility for 3): use MakeGPUCounts for that.
var MakeGPUs = 1

// MakeGPUCounts, when not empty, replaces MakeGPUs: it lists ALL the GPU counts
// (each 1..4) with which the configuration made next is going to be run, e.g.
// {1, 2, 4} when the same configuration is run on 1, 2 and 4 GPUs and the
// results are compared. Make then draws only sizes admissible for every count.
var MakeGPUCounts []int

// BenchEmuOnlyArchs lists, per entry name, further architectures whose kernel
// binary passes in EMULATION on ONE GPU but fails on the timing platform on the
// unmodified tree (EXCLUDED 3, 4). Make of those entries accepts them.
var BenchEmuOnlyArchs = map[string][]string{
	"amdappsdk/floydwarshall":        {"cdna3"},
	"amdappsdk/matrixmultiplication": {"cdna3"},
	"amdappsdk/matrixtranspose":      {"cdna3"},
	"heteromark/aes":                 {"cdna3"},
	"shoc/stencil2d":                 {"cdna3"},
	"dnn/layer_benchmarks/im2col":    {"cdna3"},
}

var (
	archGCN3  = []string{"gcn3"}
	archCDNA3 = []string{"cdna3"}
	archBoth  = []string{"gcn3", "cdna3"}
)

// btGPUs condenses MakeGPUCounts (or MakeGPUs): the least common multiple, the
// smallest and the largest of the GPU counts (each clamped to 1..4).
func btGPUs() (lcm, lo, hi int) {
	counts := MakeGPUCounts
	if len(counts) == 0 {
		counts = []int{MakeGPUs}
	}
	lcm, lo, hi = 1, 4, 1
	for _, g := range counts {
		g = min(max(g, 1), 4)
		lo, hi = min(lo, g), max(hi, g)
		m := lcm
		for m%g != 0 {
			m += lcm
		}
		lcm = m
	}
	return lcm, lo, hi
}

// btGPUsFor is btGPUs for an entry whose cdna3 variant runs on one GPU only.
func btGPUsFor(a arch.Type) (lcm, lo, hi int) {
	if a == arch.CDNA3 {
		return 1, 1, 1
	}
	return btGPUs()
}

// btRange draws an integer in [lo, hi] (0 -> lo).
func btRange(ch Drawer, lo, hi int, label string) int {
	if hi <= lo {
		return lo
	}
	return lo + ch.Intn(hi-lo+1, label)
}

// BenchTable lists the workloads.
var BenchTable = []BenchEntry{
	// ---- amdappsdk ------------------------------------------------------
	{
		// Length: power of two >= 2; one work-item per pair, work-groups of 64
		// (Length/2 need not be a multiple of 64). log2(n)(log2(n)+1)/2 kernel
		// launches. Per GPU at least one work-item: Length/2 >= gpus, and at
		// most one work-group: Length <= 128*gpus (EXCLUDED 15).
		Name: "amdappsdk/bitonicsort", Archs: archGCN3,
		MultiGPU: true, RaceFree: true, Elementwise: true,
		Make: makeBitonicSort,
	},
	{
		// cdna3 binary: one GPU only (EXCLUDED 2).
		Name: "amdappsdk/bitonicsort@cdna3", Archs: archCDNA3,
		MultiGPU: false, RaceFree: true, Elementwise: true,
		Make: makeBitonicSort,
	},
	{
		// Length: power of two >= 2; Length/2 work-items, work-groups of 256,
		// log2(Length) launches.
		Name: "amdappsdk/fastwalshtransform", Archs: archBoth,
		MultiGPU: false, RaceFree: true, Elementwise: true,
		Make: func(d *driver.Driver, a arch.Type, ch Drawer) (benchmarks.Benchmark, string) {
			b := fastwalshtransform.NewBenchmark(d)
			b.Arch = a
			b.Length = uint32(1) << btRange(ch, 1, 10, "fwt.log2len")
			return b, fmt.Sprintf("length=%d", b.Length)
		},
	},
	{
		// NumNodes: multiple of 8 (EXCLUDED 5); NumNodes^2 work-items in 8x8
		// groups per iteration; NumIterations in [1, NumNodes] (0 means all).
		// Row/column k are not modified in pass k (diagonal is 0), so the
		// passes are race free. More than 16 nodes: one iteration only
		// (EXCLUDED 15). cdna3: emulation only (EXCLUDED 3).
		Name: "amdappsdk/floydwarshall", Archs: archGCN3,
		MultiGPU: false, RaceFree: true, Elementwise: true,
		Make: func(d *driver.Driver, a arch.Type, ch Drawer) (benchmarks.Benchmark, string) {
			b := floydwarshall.NewBenchmark(d)
			b.Arch = a
			b.NumNodes = uint32(8 * btRange(ch, 1, 4, "fw.nodes/8"))
			maxIter := int(b.NumNodes)
			if b.NumNodes > 16 {
				maxIter = 1 // EXCLUDED 15
			}
			b.NumIterations = uint32(btRange(ch, 1, maxIter, "fw.iter"))
			return b, fmt.Sprintf("node=%d iter=%d", b.NumNodes, b.NumIterations)
		},
	},
	{
		// A is Y rows x X columns, B is X x Z, C is Y x Z; (Z/4) x (Y/4)
		// work-items in 8x8 groups, each group needs a full 32-wide tile in x:
		// X, Z multiples of 32, Y a multiple of 4 and <= 32 (EXCLUDED 7).
		// MultiGPU is false because every split gives wrong rows (EXCLUDED 7c).
		// cdna3: emulation only (EXCLUDED 3) and not race free (7d).
		Name: "amdappsdk/matrixmultiplication", Archs: archGCN3,
		MultiGPU: false, RaceFree: true, Elementwise: true,
		Make: func(d *driver.Driver, a arch.Type, ch Drawer) (benchmarks.Benchmark, string) {
			b := matrixmultiplication.NewBenchmark(d)
			b.Arch = a
			b.X = uint32(32 * btRange(ch, 1, 4, "mm.x/32"))
			b.Y = uint32(4 * btRange(ch, 1, 8, "mm.y/4"))
			b.Z = uint32(32 * btRange(ch, 1, 4, "mm.z/32"))
			return b, fmt.Sprintf("x=%d y=%d z=%d", b.X, b.Y, b.Z)
		},
	},
	{
		// Width: multiple of 64*gpus (16x16 groups, 4x4 elements per
		// work-item, the columns of groups are split over the GPUs);
		// (Width/4)^2 work-items, Width <= 256 unless the counts {3, 2 or 4}
		// force 768. cdna3: emulation only (EXCLUDED 3).
		Name: "amdappsdk/matrixtranspose", Archs: archGCN3,
		MultiGPU: true, RaceFree: true, Elementwise: true,
		Make: func(d *driver.Driver, a arch.Type, ch Drawer) (benchmarks.Benchmark, string) {
			l, _, _ := btGPUs()
			b := matrixtranspose.NewBenchmark(d)
			b.Arch = a
			b.Width = 64 * l * btRange(ch, 1, 4/l, "mt.width/64g")
			return b, fmt.Sprintf("width=%d", b.Width)
		},
	},
	{
		// NumParticles: multiple of 256 (Run() rounds down, minimum 256), one
		// group of 256 per tile, N^2 interactions per iteration. The cdna3
		// kernel keeps the tile in ONE global buffer shared by all groups, so
		// cdna3 is limited to a single group (256).
		Name: "amdappsdk/nbody", Archs: archBoth,
		MultiGPU: false, RaceFree: true, Elementwise: true,
		Make: func(d *driver.Driver, a arch.Type, ch Drawer) (benchmarks.Benchmark, string) {
			b := nbody.NewBenchmark(d)
			b.Arch = a
			groups := btRange(ch, 1, 2, "nbody.particles/256")
			if a == arch.CDNA3 {
				groups = 1
			}
			b.NumParticles = int32(256 * groups)
			b.NumIterations = int32(btRange(ch, 1, 3, "nbody.iter"))
			return b, fmt.Sprintf("particles=%d iter=%d", b.NumParticles, b.NumIterations)
		},
	},
	{
		// Any Width, Height >= 1, mask >= 1 (pad = mask-1); the 1-D grid has
		// (W+pad)(H+pad)/gpus work-items per GPU in groups of 64 (partial
		// groups are fine, the kernel checks bounds). With several GPUs the
		// floor of the division must still cover W*H outputs: mask >= 2.
		Name: "amdappsdk/simpleconvolution", Archs: archGCN3,
		MultiGPU: true, RaceFree: true, Elementwise: true,
		Make: makeSimpleConvolution,
	},
	{
		Name: "amdappsdk/simpleconvolution@cdna3", Archs: archCDNA3,
		MultiGPU: false, RaceFree: true, Elementwise: true,
		Make: makeSimpleConvolution,
	},
	{
		// Ships a gfx942 binary only (no Arch field). Width*Height
		// work-items, groups of 64, bounds checked. Splitting over GPUs is
		// wrong (EXCLUDED 2).
		Name: "amdappsdk/vectoradd", Archs: archCDNA3,
		MultiGPU: false, RaceFree: true, Elementwise: true,
		Make: func(d *driver.Driver, a arch.Type, ch Drawer) (benchmarks.Benchmark, string) {
			b := vectoradd.NewBenchmark(d)
			b.Width = uint32(btRange(ch, 1, 64, "va.width"))
			b.Height = uint32(btRange(ch, 1, 64, "va.height"))
			return b, fmt.Sprintf("width=%d height=%d", b.Width, b.Height)
		},
	},

	// ---- heteromark -----------------------------------------------------
	{
		// Length: multiple of 16*gpus bytes (one work-item per 16-byte block,
		// groups of 64, partial groups fine). cdna3: emulation, one GPU only
		// (EXCLUDED 2, 4).
		Name: "heteromark/aes", Archs: archGCN3,
		MultiGPU: true, RaceFree: true, Elementwise: true,
		Make: func(d *driver.Driver, a arch.Type, ch Drawer) (benchmarks.Benchmark, string) {
			l, _, _ := btGPUsFor(a)
			b := aes.NewBenchmark(d)
			b.Arch = a
			b.Length = 16 * l * btRange(ch, 1, 512/l, "aes.blocks/g")
			return b, fmt.Sprintf("length=%d", b.Length)
		},
	},
	{
		// Length: any multiple of gpus >= gpus (groups of 256, partial groups
		// fine); taps >= 1 (0 would select the default 16).
		Name: "heteromark/fir", Archs: archGCN3,
		MultiGPU: true, RaceFree: true, Elementwise: true,
		Make: makeFIR,
	},
	{
		Name: "heteromark/fir@cdna3", Archs: archCDNA3,
		MultiGPU: false, RaceFree: true, Elementwise: true,
		Make: makeFIR,
	},
	{
		// NumPoints: multiple of gpus (groups of 64, bounds checked);
		// 1 <= NumClusters <= NumPoints (the first points seed the clusters);
		// NumFeatures >= 1; MaxIter >= 1. Verify compares GPU (float32) and CPU
		// (float64) memberships exactly; 60 random configurations of these
		// ranges passed.
		Name: "heteromark/kmeans", Archs: archGCN3,
		MultiGPU: true, RaceFree: true, Elementwise: true,
		Make: makeKMeans,
	},
	{
		Name: "heteromark/kmeans@cdna3", Archs: archCDNA3,
		MultiGPU: false, RaceFree: true, Elementwise: true,
		Make: makeKMeans,
	},
	{
		// One group (= one wavefront) of 64 per node; NumConnections must not
		// exceed NumNodes^2 (the csr generator would spin forever); the sample
		// keeps NumConnections >= NumNodes, so does this generator. More than
		// 16 nodes: at most 2 iterations (EXCLUDED 15).
		Name: "heteromark/pagerank", Archs: archBoth,
		MultiGPU: false, RaceFree: true, Elementwise: true,
		Make: func(d *driver.Driver, a arch.Type, ch Drawer) (benchmarks.Benchmark, string) {
			b := pagerank.NewBenchmark(d)
			b.Arch = a
			n := btRange(ch, 1, 64, "pr.nodes")
			b.NumNodes = uint32(n)
			b.NumConnections = uint32(btRange(ch, n, n*n, "pr.conn"))
			maxIter := 4
			if n > 16 {
				maxIter = 2 // EXCLUDED 15
			}
			b.MaxIterations = uint32(btRange(ch, 1, maxIter, "pr.iter"))
			return b, fmt.Sprintf("node=%d connections=%d iterations=%d",
				b.NumNodes, b.NumConnections, b.MaxIterations)
		},
	},

	// ---- polybench ------------------------------------------------------
	{
		// NX >= NY >= 1 (EXCLUDED 9); grids are rounded up to groups of 256
		// and bounds checked. NY <= 32 keeps the timing platform at a few s.
		Name: "polybench/atax", Archs: archBoth,
		MultiGPU: false, RaceFree: true, Elementwise: true,
		Make: func(d *driver.Driver, a arch.Type, ch Drawer) (benchmarks.Benchmark, string) {
			b := atax.NewBenchmark(d)
			b.Arch = a
			b.NX = btRange(ch, 1, 288, "atax.nx")
			b.NY = btRange(ch, 1, min(b.NX, 32), "atax.ny")
			return b, fmt.Sprintf("x=%d y=%d", b.NX, b.NY)
		},
	},
	{
		// NX, NY >= 1, independent; grids rounded up to groups of 256.
		Name: "polybench/bicg", Archs: archBoth,
		MultiGPU: false, RaceFree: true, Elementwise: true,
		Make: func(d *driver.Driver, a arch.Type, ch Drawer) (benchmarks.Benchmark, string) {
			b := bicg.NewBenchmark(d)
			b.Arch = a
			long := btRange(ch, 1, 288, "bicg.long")
			short := btRange(ch, 1, 32, "bicg.short")
			b.NX, b.NY = long, short
			if ch.Bool(1, 2, "bicg.swap") {
				b.NX, b.NY = short, long
			}
			return b, fmt.Sprintf("x=%d y=%d", b.NX, b.NY)
		},
	},

	// ---- rodinia --------------------------------------------------------
	{
		// length: 64 or 128 only (EXCLUDED 6). SelectGPU panics for > 1 GPU.
		Name: "rodinia/nw", Archs: archBoth,
		MultiGPU: false, RaceFree: true, Elementwise: true,
		Make: func(d *driver.Driver, a arch.Type, ch Drawer) (benchmarks.Benchmark, string) {
			b := nw.NewBenchmark(d)
			b.Arch = a
			length := 64 * btRange(ch, 1, 2, "nw.length/64")
			b.SetLength(length)
			return b, fmt.Sprintf("length=%d", length)
		},
	},

	// ---- shoc -----------------------------------------------------------
	{
		// NumNode >= 2 (1 node with degree >= 2 never terminates generating
		// edges; 1 node allocates a 0-byte edge list), Degree >= 1, MaxDepth
		// >= 1. Work-groups of 1024, 32 vertices per 32 work-items, so more
		// than one group needs > 1024 nodes. Work-items of different groups
		// store the same level / flag value to the same address: benign, the
		// result is deterministic, but not RaceFree by the definition above.
		Name: "shoc/bfs", Archs: archBoth,
		MultiGPU: false, RaceFree: false, Elementwise: false,
		Make: func(d *driver.Driver, a arch.Type, ch Drawer) (benchmarks.Benchmark, string) {
			b := bfs.NewBenchmark(d)
			b.Arch = a
			b.Path = ""
			b.NumNode = btRange(ch, 2, 256, "bfs.nodes")
			if ch.Bool(1, 4, "bfs.multigroup") {
				b.NumNode = btRange(ch, 1025, 1100, "bfs.nodes.big")
			}
			b.Degree = btRange(ch, 1, 6, "bfs.degree")
			depth := btRange(ch, 1, 5, "bfs.depth")
			b.MaxDepth = depth
			ds := fmt.Sprint(depth)
			if depth == 5 {
				b.MaxDepth = math.MaxInt32
				ds = "unlimited"
			}
			return b, fmt.Sprintf("node=%d degree=%d depth=%s", b.NumNode, b.Degree, ds)
		},
	},
	{
		// Bytes (BytesMode): >= 8192, rounded down to a multiple of 8192;
		// 2 FFTs of 512 points per 8192 bytes, one group of 64 per FFT; Passes
		// >= 1 repeats the forward transform in place. Verify is vacuous.
		Name: "shoc/fft", Archs: archBoth,
		MultiGPU: false, RaceFree: true, Elementwise: true,
		Make: func(d *driver.Driver, a arch.Type, ch Drawer) (benchmarks.Benchmark, string) {
			b := fft.NewBenchmark(d)
			b.Arch = a
			b.BytesMode = true
			b.Bytes = int64(8192 * btRange(ch, 1, 8, "fft.bytes/8192"))
			b.Passes = int32(btRange(ch, 1, 2, "fft.passes"))
			return b, fmt.Sprintf("bytes=%d passes=%d", b.Bytes, b.Passes)
		},
	},
	{
		// Dim >= 1 rows, one work-item per row in groups of 128 (partial
		// groups fine); the number of non-zeros int(Dim^2*Sparsity) must be in
		// [1, Dim^2] (0 panics "Allocating 0 bytes"). cdna3: Dim <= 128
		// (EXCLUDED 8).
		Name: "shoc/spmv", Archs: archBoth,
		MultiGPU: false, RaceFree: true, Elementwise: true,
		Make: func(d *driver.Driver, a arch.Type, ch Drawer) (benchmarks.Benchmark, string) {
			b := spmv.NewBenchmark(d)
			b.Arch = a
			maxDim := 1024
			if a == arch.CDNA3 {
				maxDim = 128
			}
			dim := btRange(ch, 1, maxDim, "spmv.dim")
			nnz := btRange(ch, 1, min(dim*dim, 4096), "spmv.nnz")
			b.Dim = int32(dim)
			b.Sparsity = (float64(nnz) + 0.5) / (float64(dim) * float64(dim))
			return b, fmt.Sprintf("dim=%d nnz=%d", dim, nnz)
		},
	},
	{
		// NumRows = 16*r+2, NumCols = 64*c+2 (interior multiples of the 16x64
		// tile, EXCLUDED 13); r x 64c work-items in groups of 1x64.
		// cdna3: emulation only (EXCLUDED 3).
		Name: "shoc/stencil2d", Archs: archGCN3,
		MultiGPU: false, RaceFree: true, Elementwise: true,
		Make: func(d *driver.Driver, a arch.Type, ch Drawer) (benchmarks.Benchmark, string) {
			b := stencil2d.NewBenchmark(d)
			b.Arch = a
			b.NumRows = 16*btRange(ch, 1, 4, "st.rows/16") + 2
			b.NumCols = 64*btRange(ch, 1, 3, "st.cols/64") + 2
			b.NumIteration = btRange(ch, 1, 3, "st.iter")
			return b, fmt.Sprintf("row=%d col=%d iter=%d (interior)",
				b.NumRows-2, b.NumCols-2, b.NumIteration)
		},
	},

	// ---- dnn/layer_benchmarks ---------------------------------------------
	{
		// Length: any multiple of gpus (groups of 64, bounds checked).
		Name: "dnn/layer_benchmarks/relu", Archs: archGCN3,
		MultiGPU: true, RaceFree: true, Elementwise: true,
		Make: makeReLU,
	},
	{
		Name: "dnn/layer_benchmarks/relu@cdna3", Archs: archCDNA3,
		MultiGPU: false, RaceFree: true, Elementwise: true,
		Make: makeReLU,
	},
	{
		// Square image (EXCLUDED 10), kernel <= image+2*pad, exact stride
		// division when backward is enabled (EXCLUDED 11). gcn3 only
		// (EXCLUDED 12). SelectGPU panics for > 1 GPU. Call
		// EnableVerification() before Run() to have every operator checked.
		Name: "dnn/layer_benchmarks/conv2d", Archs: archGCN3,
		MultiGPU: false, RaceFree: true, Elementwise: true,
		Make: func(d *driver.Driver, a arch.Type, ch Drawer) (benchmarks.Benchmark, string) {
			b := conv2d.NewBenchmark(d)
			b.Arch = a
			b.N = btRange(ch, 1, 2, "conv.n")
			b.C = btRange(ch, 1, 3, "conv.c")
			b.KernelChannel = btRange(ch, 1, 5, "conv.outc")
			if ch.Bool(1, 8, "conv.outc.big") {
				b.KernelChannel = 17 // more than one 16-wide gemm tile
			}
			b.KernelHeight = btRange(ch, 1, 3, "conv.kh")
			b.KernelWidth = btRange(ch, 1, 3, "conv.kw")
			b.PadY = btRange(ch, 0, min(1, b.KernelHeight-1), "conv.pady")
			b.PadX = btRange(ch, 0, min(1, b.KernelWidth-1), "conv.padx")
			b.StrideY = btRange(ch, 1, 2, "conv.stridey")
			b.StrideX = btRange(ch, 1, 2, "conv.stridex")
			b.EnableBackward = ch.Bool(1, 3, "conv.backward")
			b.H = btSquareSide(ch, 8, b.EnableBackward,
				b.KernelHeight, b.KernelWidth, b.PadY, b.PadX, b.StrideY, b.StrideX, "conv.hw")
			if b.H < 0 { // no square side divides exactly in both dimensions
				b.StrideY, b.StrideX = 1, 1
				b.H = btSquareSide(ch, 8, b.EnableBackward,
					b.KernelHeight, b.KernelWidth, b.PadY, b.PadX, 1, 1, "conv.hw1")
			}
			b.W = b.H
			return b, fmt.Sprintf("N=%d C=%d H=%d W=%d output-channel=%d kernel=%dx%d pad-y=%d pad-x=%d "+
				"stride-y=%d stride-x=%d backward=%v", b.N, b.C, b.H, b.W, b.KernelChannel,
				b.KernelHeight, b.KernelWidth, b.PadY, b.PadX, b.StrideY, b.StrideX, b.EnableBackward)
		},
	},
	{
		// Square image (EXCLUDED 10); effective kernel (k-1)*dilate+1 <=
		// image+2*pad; fieldH*fieldW*N x kh*kw*C work-items in 8x8 groups
		// (partial groups fine). cdna3: emulation only (EXCLUDED 3).
		// SelectGPU panics for > 1 GPU. EnableVerification() as for conv2d.
		Name: "dnn/layer_benchmarks/im2col", Archs: archGCN3,
		MultiGPU: false, RaceFree: true, Elementwise: true,
		Make: func(d *driver.Driver, a arch.Type, ch Drawer) (benchmarks.Benchmark, string) {
			b := im2col.NewBenchmark(d)
			b.Arch = a
			b.N = btRange(ch, 1, 2, "i2c.n")
			b.C = btRange(ch, 1, 3, "i2c.c")
			b.KernelHeight = btRange(ch, 1, 3, "i2c.kh")
			b.KernelWidth = btRange(ch, 1, 3, "i2c.kw")
			b.DilateY = btRange(ch, 1, 2, "i2c.dilatey")
			b.DilateX = btRange(ch, 1, 2, "i2c.dilatex")
			effH := (b.KernelHeight-1)*b.DilateY + 1
			effW := (b.KernelWidth-1)*b.DilateX + 1
			b.PadY = btRange(ch, 0, min(1, effH-1), "i2c.pady")
			b.PadX = btRange(ch, 0, min(1, effW-1), "i2c.padx")
			b.StrideY = btRange(ch, 1, 2, "i2c.stridey")
			b.StrideX = btRange(ch, 1, 2, "i2c.stridex")
			b.H = btSquareSide(ch, 8, false, effH, effW, b.PadY, b.PadX, b.StrideY, b.StrideX, "i2c.hw")
			b.W = b.H
			return b, fmt.Sprintf("N=%d C=%d H=%d W=%d kernel=%dx%d pad-y=%d pad-x=%d stride-y=%d stride-x=%d "+
				"dilate-y=%d dilate-x=%d", b.N, b.C, b.H, b.W, b.KernelHeight, b.KernelWidth,
				b.PadY, b.PadX, b.StrideY, b.StrideX, b.DilateY, b.DilateX)
		},
	},
}

// btSquareSide draws the side S of a square image among the admissible values
// in [1, maxSide]: S+2*pad >= kernel in both dimensions and, when exact is set,
// (S+2*pad-kernel) divisible by the stride in both dimensions. The smallest
// admissible side is returned for a draw of 0. kh, kw are the effective
// (dilated) kernel sizes. Without exact (or with strides 1) there is always an
// admissible side because pad <= 1 <= kernel and kernel <= 5 <= maxSide; with
// exact and strides > 1 there may be none (e.g. kernel 1x2, stride 2x2): -1 is
// returned then, without consuming a draw.
func btSquareSide(ch Drawer, maxSide int, exact bool, kh, kw, py, px, sy, sx int, label string) int {
	var ok []int
	for s := 1; s <= maxSide; s++ {
		rh, rw := s+2*py-kh, s+2*px-kw
		if rh < 0 || rw < 0 {
			continue
		}
		if strings.HasPrefix(label, "conv.") && (s < kh || s < kw) {
			continue // layers.Conv2D rejects an unpadded image smaller than the kernel
		}
		if exact && (rh%sy != 0 || rw%sx != 0) {
			continue
		}
		ok = append(ok, s)
	}
	if len(ok) == 0 {
		return -1
	}
	return ok[ch.Intn(len(ok), label)]
}

func makeBitonicSort(d *driver.Driver, a arch.Type, ch Drawer) (benchmarks.Benchmark, string) {
	_, lo, hi := btGPUsFor(a)
	minLog := 1 // smallest k with 2^(k-1) >= largest GPU count
	for (1 << (minLog - 1)) < hi {
		minLog++
	}
	maxLog := 7 // at most one work-group of 64 per GPU (EXCLUDED 15)
	for n := lo; n > 1; n /= 2 {
		maxLog++
	}
	b := bitonicsort.NewBenchmark(d)
	b.Arch = a
	b.Length = 1 << btRange(ch, minLog, maxLog, "bs.log2len")
	b.OrderAscending = !ch.Bool(1, 2, "bs.descending")
	return b, fmt.Sprintf("length=%d order-asc=%v", b.Length, b.OrderAscending)
}

func makeSimpleConvolution(d *driver.Driver, a arch.Type, ch Drawer) (benchmarks.Benchmark, string) {
	_, _, hi := btGPUsFor(a)
	minMask := 1
	if hi > 1 {
		minMask = 2
	}
	b := simpleconvolution.NewBenchmark(d)
	b.Arch = a
	b.Width = uint32(btRange(ch, 1, 60, "sc.width"))
	b.Height = uint32(btRange(ch, 1, 60, "sc.height"))
	mask := btRange(ch, minMask, 5, "sc.mask")
	b.SetMaskSize(uint32(mask))
	return b, fmt.Sprintf("width=%d height=%d mask-size=%d", b.Width, b.Height, mask)
}

func makeFIR(d *driver.Driver, a arch.Type, ch Drawer) (benchmarks.Benchmark, string) {
	g, _, _ := btGPUsFor(a)
	b := fir.NewBenchmark(d)
	b.Arch = a
	b.Length = g * btRange(ch, 1, 2048/g, "fir.length/g")
	b.NumTapsParam = btRange(ch, 1, 16, "fir.taps")
	return b, fmt.Sprintf("length=%d taps=%d", b.Length, b.NumTapsParam)
}

func makeKMeans(d *driver.Driver, a arch.Type, ch Drawer) (benchmarks.Benchmark, string) {
	g, _, _ := btGPUsFor(a)
	b := kmeans.NewBenchmark(d)
	b.Arch = a
	b.NumPoints = g * btRange(ch, 1, 320/g, "km.points/g")
	b.NumClusters = btRange(ch, 1, min(8, b.NumPoints), "km.clusters")
	b.NumFeatures = btRange(ch, 1, 8, "km.features")
	b.MaxIter = btRange(ch, 1, 4, "km.iter")
	return b, fmt.Sprintf("points=%d clusters=%d features=%d max-iter=%d",
		b.NumPoints, b.NumClusters, b.NumFeatures, b.MaxIter)
}

func makeReLU(d *driver.Driver, a arch.Type, ch Drawer) (benchmarks.Benchmark, string) {
	g, _, _ := btGPUsFor(a)
	b := relu.NewBenchmark(d)
	b.Arch = a
	b.Length = g * btRange(ch, 1, 4096/g, "relu.length/g")
	return b, fmt.Sprintf("length=%d", b.Length)
}
