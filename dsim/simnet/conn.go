// Package simnet provides FaultyConn, a sim.Connection whose latency,
// cross-pair ordering and back-pressure are decided by the decision source.
//
// Guarantees it keeps (because every component is written against them):
// reliable delivery, no duplication, FIFO per (source port, destination port).
// What it varies: per-message extra latency, order across different pairs,
// stall windows on destination ports (no delivery for n cycles, so the
// sender's outgoing buffer fills and its Send fails), a cap on messages in
// flight per source port.
package simnet

import (
	"fmt"

	"github.com/sarchlab/akita/v4/sim"

	"verif/dsim/choice"
)

// Config holds the per-run fault knobs (all drawn by the harness).
type Config struct {
	MaxDelay      int // extra latency per message in cycles: 0..MaxDelay
	DelayNum      int // probability (DelayNum/DelayDen) that a message is delayed at all
	DelayDen      int
	StallNum      int // probability per delivery attempt that a stall window opens on the destination
	StallDen      int
	MaxStall      int // stall window length 1..MaxStall cycles
	MaxStalls     int // total number of stall windows this connection may open (bounded faults)
	InFlightCap   int // messages taken from one source port and not yet delivered (>=1)
	ShuffleServe  bool
	DeliverPerDst int // max deliveries per destination per cycle (0 = unlimited)
}

// Stats counts the faults that actually fired.
type Stats struct {
	Delivered     uint64
	Delayed       uint64
	DelayCycles   uint64
	CrossReorder  uint64 // a message was delivered while an earlier-sent message of another pair still waited
	StallWindows  uint64
	StalledTries  uint64 // delivery attempts refused because of a stall window
	DstBusy       uint64 // delivery attempts refused by the destination buffer itself
	SrcCapBlocked uint64 // ticks in which a source was not drained because of InFlightCap
}

type flight struct {
	msg     sim.Msg
	readyAt uint64 // cycle
	sentSeq uint64
}

type pairKey struct{ src, dst int }

// FaultyConn implements sim.Connection.
type FaultyConn struct {
	*sim.TickingComponent

	ch  *choice.Source
	cfg Config

	ports   []sim.Port
	portIdx map[sim.RemotePort]int

	// per pair FIFO; pairs in creation order for deterministic iteration
	pairs    map[pairKey]*[]flight
	pairList []pairKey
	inFlight []int // per source port

	stallUntil []uint64 // per destination port, cycle
	stallsUsed int
	sentSeq    uint64
	cycle      uint64
	freq       sim.Freq

	// Quiet, when set true, disables all faults from now on (end of the fault phase).
	Quiet bool

	Stats Stats
	// Misrouted lists messages whose destination is not plugged into this connection.
	Misrouted []string
}

// New creates a connection ticking at freq.
func New(name string, engine sim.Engine, freq sim.Freq, ch *choice.Source, cfg Config) *FaultyConn {
	if cfg.InFlightCap < 1 {
		cfg.InFlightCap = 1 << 30
	}
	c := &FaultyConn{
		ch:      ch,
		cfg:     cfg,
		portIdx: map[sim.RemotePort]int{},
		pairs:   map[pairKey]*[]flight{},
		freq:    freq,
	}
	c.TickingComponent = sim.NewSecondaryTickingComponent(name, engine, freq, c)
	return c
}

// PlugIn implements sim.Connection.
func (c *FaultyConn) PlugIn(port sim.Port) {
	c.portIdx[port.AsRemote()] = len(c.ports)
	c.ports = append(c.ports, port)
	c.inFlight = append(c.inFlight, 0)
	c.stallUntil = append(c.stallUntil, 0)
	port.SetConnection(c)
}

// Unplug implements sim.Connection.
func (c *FaultyConn) Unplug(sim.Port) { panic("not implemented") }

// NotifyAvailable implements sim.Connection.
func (c *FaultyConn) NotifyAvailable(p sim.Port) {
	for _, port := range c.ports {
		if port == p {
			continue
		}
		port.NotifyAvailable()
	}
	c.TickNow()
}

// NotifySend implements sim.Connection.
func (c *FaultyConn) NotifySend() { c.TickNow() }

// Pending reports messages taken from senders and not yet delivered.
func (c *FaultyConn) Pending() int {
	n := 0
	for _, k := range c.pairList {
		n += len(*c.pairs[k])
	}
	return n
}

func (c *FaultyConn) nowCycle() uint64 {
	return c.freq.Cycle(c.CurrentTime())
}

// Tick moves messages.
func (c *FaultyConn) Tick() bool {
	progress := false
	now := c.nowCycle()
	c.cycle = now

	// 1. take messages out of the senders' outgoing buffers.
	for si, port := range c.ports {
		for {
			if c.inFlight[si] >= c.cfg.InFlightCap {
				if port.PeekOutgoing() != nil {
					c.Stats.SrcCapBlocked++
				}
				break
			}
			head := port.PeekOutgoing()
			if head == nil {
				break
			}
			di, ok := c.portIdx[head.Meta().Dst]
			if !ok {
				// a message addressed to a port this connection does not know:
				// recorded for the oracle (misrouting), then dropped.
				c.Misrouted = append(c.Misrouted, fmt.Sprintf("%T from %s to %s", head, head.Meta().Src, head.Meta().Dst))
				port.RetrieveOutgoing()
				progress = true
				continue
			}
			port.RetrieveOutgoing()
			delay := 0
			if !c.Quiet && c.cfg.MaxDelay > 0 && c.ch.Bool(c.cfg.DelayNum, c.cfg.DelayDen, "net.delay?") {
				delay = 1 + c.ch.Intn(c.cfg.MaxDelay, "net.delay")
				c.Stats.Delayed++
				c.Stats.DelayCycles += uint64(delay)
			}
			k := pairKey{si, di}
			q, ok := c.pairs[k]
			if !ok {
				q = new([]flight)
				c.pairs[k] = q
				c.pairList = append(c.pairList, k)
			}
			c.sentSeq++
			*q = append(*q, flight{msg: head, readyAt: now + uint64(delay), sentSeq: c.sentSeq})
			c.inFlight[si]++
			progress = true
		}
	}

	// 2. deliver heads that are ready.
	order := c.pairList
	if c.cfg.ShuffleServe && len(order) > 1 && !c.Quiet {
		start := c.ch.Intn(len(order), "net.serve")
		order = append(append([]pairKey{}, order[start:]...), order[:start]...)
	}
	perDst := map[int]int{}
	pendingLeft := false
	for _, k := range order {
		q := c.pairs[k]
		for len(*q) > 0 {
			f := (*q)[0]
			if f.readyAt > now {
				pendingLeft = true
				break
			}
			if c.stallUntil[k.dst] > now {
				c.Stats.StalledTries++
				pendingLeft = true
				break
			}
			if c.cfg.DeliverPerDst > 0 && perDst[k.dst] >= c.cfg.DeliverPerDst {
				pendingLeft = true
				break
			}
			if !c.Quiet && c.cfg.MaxStall > 0 && c.stallsUsed < c.cfg.MaxStalls &&
				c.ch.Bool(c.cfg.StallNum, c.cfg.StallDen, "net.stall?") {
				c.stallsUsed++
				c.stallUntil[k.dst] = now + 1 + uint64(c.ch.Intn(c.cfg.MaxStall, "net.stall"))
				c.Stats.StallWindows++
				pendingLeft = true
				break
			}
			if err := c.ports[k.dst].Deliver(f.msg); err != nil {
				c.Stats.DstBusy++
				// The destination notifies us (NotifyAvailable) when it has room.
				break
			}
			c.Stats.Delivered++
			if c.olderWaiting(f.sentSeq, k) {
				c.Stats.CrossReorder++
			}
			*q = (*q)[1:]
			c.inFlight[k.src]--
			perDst[k.dst]++
			progress = true
			if c.inFlight[k.src] == c.cfg.InFlightCap-1 {
				// the source may have been blocked; make sure it learns it can send
				c.ports[k.src].NotifyAvailable()
			}
		}
	}

	// keep ticking while something waits for time to pass
	return progress || pendingLeft
}

func (c *FaultyConn) olderWaiting(seq uint64, self pairKey) bool {
	for _, k := range c.pairList {
		if k == self {
			continue
		}
		q := c.pairs[k]
		if len(*q) > 0 && (*q)[0].sentSeq < seq {
			return true
		}
	}
	return false
}
