package stubs

import (
	"github.com/sarchlab/akita/v4/mem/mem"
	"github.com/sarchlab/akita/v4/sim"

	"verif/dsim/choice"
)

// MemConfig holds the adversarial knobs of the memory stub.
type MemConfig struct {
	MaxAccept    int // requests accepted per cycle: 0..MaxAccept drawn each cycle (>=1)
	StarveNum    int // probability that a cycle accepts nothing
	StarveDen    int
	MaxStarves   int // bound on the number of starved cycles
	MinLatency   int // response latency in cycles
	MaxLatency   int
	OutOfOrder   bool // ready responses are sent in drawn order instead of arrival order
	MaxRespond   int  // responses sent per cycle (>=1)
	SpikeNum     int  // probability that a request gets SpikeLatency instead (a very late answer)
	SpikeDen     int
	SpikeLatency int
}

// Arrival is one request as the memory stub saw it, in arrival order.
type Arrival struct {
	Cycle uint64
	Req   mem.AccessReq
	// Data returned (reads) at arrival.
	Data []byte
	Rsp  sim.Msg
}

type pendingRsp struct {
	rsp     sim.Msg
	readyAt uint64
}

// Memory is a flat byte-array memory behind one port. Writes take effect at
// arrival, reads return the contents at arrival; the response leaves after a
// drawn latency, possibly out of order.
type Memory struct {
	*sim.TickingComponent

	Port sim.Port
	ch   *choice.Source
	freq sim.Freq
	cfg  MemConfig

	// Storage is sparse; unwritten bytes read as Background(addr).
	Storage    map[uint64]byte
	Background func(addr uint64) byte

	pending  []pendingRsp
	Arrivals []Arrival
	starves  int

	Quiet bool

	Starved     uint64
	OOOSent     uint64 // responses sent while an earlier-arrived one was still pending
	SendRefused uint64
	Spikes      uint64
}

// NewMemory creates the stub.
func NewMemory(name string, engine sim.Engine, freq sim.Freq, ch *choice.Source, cfg MemConfig, inBuf, outBuf int) *Memory {
	if cfg.MaxAccept < 1 {
		cfg.MaxAccept = 1
	}
	if cfg.MaxRespond < 1 {
		cfg.MaxRespond = 1
	}
	m := &Memory{ch: ch, freq: freq, cfg: cfg, Storage: map[uint64]byte{}}
	m.TickingComponent = sim.NewTickingComponent(name, engine, freq, m)
	m.Port = sim.NewPort(m, inBuf, outBuf, name+".Port")
	m.AddPort("Port", m.Port)
	return m
}

// ByteAt returns the current content of one byte.
func (m *Memory) ByteAt(addr uint64) byte {
	if b, ok := m.Storage[addr]; ok {
		return b
	}
	if m.Background != nil {
		return m.Background(addr)
	}
	return 0
}

// PendingResponses reports the number of accepted but unanswered requests.
func (m *Memory) PendingResponses() int { return len(m.pending) }

// Tick accepts requests and sends responses.
func (m *Memory) Tick() bool {
	progress := false
	now := m.freq.Cycle(m.CurrentTime())

	// send ready responses
	for sent := 0; sent < m.cfg.MaxRespond; sent++ {
		var ready []int
		for i := range m.pending {
			if m.pending[i].readyAt <= now {
				ready = append(ready, i)
			}
		}
		if len(ready) == 0 {
			break
		}
		pick := ready[0]
		if m.cfg.OutOfOrder && len(ready) > 1 && !m.Quiet {
			pick = ready[m.ch.Intn(len(ready), "mem.ooo")]
		}
		if !m.Port.CanSend() {
			m.SendRefused++
			break
		}
		p := m.pending[pick]
		if err := m.Port.Send(p.rsp); err != nil {
			m.SendRefused++
			break
		}
		if pick != 0 {
			m.OOOSent++
		}
		m.pending = append(m.pending[:pick], m.pending[pick+1:]...)
		progress = true
	}

	// accept requests
	accept := m.cfg.MaxAccept
	if !m.Quiet && m.Port.PeekIncoming() != nil {
		if m.starves < m.cfg.MaxStarves && m.ch.Bool(m.cfg.StarveNum, m.cfg.StarveDen, "mem.starve?") {
			accept = 0
			m.starves++
			m.Starved++
			progress = true
		} else if m.cfg.MaxAccept > 1 {
			accept = 1 + m.ch.Intn(m.cfg.MaxAccept, "mem.accept")
		}
	}
	for i := 0; i < accept; i++ {
		item := m.Port.RetrieveIncoming()
		if item == nil {
			break
		}
		m.handle(item, now)
		progress = true
	}

	if len(m.pending) > 0 || m.Port.PeekIncoming() != nil {
		return true
	}
	return progress
}

func (m *Memory) handle(item sim.Msg, now uint64) {
	lat := m.cfg.MinLatency
	if m.cfg.MaxLatency > m.cfg.MinLatency && !m.Quiet {
		lat += m.ch.Intn(m.cfg.MaxLatency-m.cfg.MinLatency+1, "mem.lat")
	}
	if !m.Quiet && m.cfg.SpikeLatency > 0 && m.ch.Bool(m.cfg.SpikeNum, m.cfg.SpikeDen, "mem.spike?") {
		lat = m.cfg.SpikeLatency
		m.Spikes++
	}
	switch req := item.(type) {
	case *mem.ReadReq:
		data := make([]byte, req.AccessByteSize)
		for i := range data {
			data[i] = m.ByteAt(req.Address + uint64(i))
		}
		rsp := mem.DataReadyRspBuilder{}.
			WithSrc(m.Port.AsRemote()).WithDst(req.Src).
			WithRspTo(req.ID).WithData(data).Build()
		m.Arrivals = append(m.Arrivals, Arrival{Cycle: now, Req: req, Data: data, Rsp: rsp})
		m.pending = append(m.pending, pendingRsp{rsp: rsp, readyAt: now + uint64(lat)})
	case *mem.WriteReq:
		for i, b := range req.Data {
			if req.DirtyMask == nil || (i < len(req.DirtyMask) && req.DirtyMask[i]) {
				m.Storage[req.Address+uint64(i)] = b
			}
		}
		rsp := mem.WriteDoneRspBuilder{}.
			WithSrc(m.Port.AsRemote()).WithDst(req.Src).
			WithRspTo(req.ID).Build()
		m.Arrivals = append(m.Arrivals, Arrival{Cycle: now, Req: req, Rsp: rsp})
		m.pending = append(m.pending, pendingRsp{rsp: rsp, readyAt: now + uint64(lat)})
	default:
		panic("stub memory: unsupported message")
	}
}
