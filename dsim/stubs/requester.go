// Package stubs holds the small adversarial stand-ins that surround a real
// component in a component harness. Each has a trivially correct inside and
// no internal concurrency; every timing decision is a draw.
package stubs

import (
	"github.com/sarchlab/akita/v4/sim"

	"verif/dsim/choice"
)

// ScriptItem is one message a Requester will send.
type ScriptItem struct {
	// NotBefore is the earliest cycle at which the message may be sent.
	NotBefore uint64
	// Gate, when set, must return true before the message may be sent.
	Gate func() bool
	// Msg is the message; Src is filled in by the requester.
	Msg sim.Msg
	// Make, when set, builds the message at send time (overrides Msg).
	Make func() sim.Msg
	// OnSent is called right after a successful Send.
	OnSent func(m sim.Msg)
}

// Received is a message a requester got back.
type Received struct {
	Cycle uint64
	Msg   sim.Msg
}

// Requester plays a script of messages on one port and records what comes back.
type Requester struct {
	*sim.TickingComponent

	Port   sim.Port
	ch     *choice.Source
	freq   sim.Freq
	script []ScriptItem
	next   int

	// response back-pressure: with probability HoldNum/HoldDen the requester
	// does not look at its incoming buffer in a cycle (at most MaxHolds times).
	HoldNum, HoldDen int
	MaxHolds         int
	Holds            int
	// HoldBurstMax > 1 makes a hold last 1..HoldBurstMax cycles.
	HoldBurstMax int
	holdLeft     int
	// RetrievePerCycle bounds how many incoming messages are taken per cycle (0 = all).
	RetrievePerCycle int
	// SendPerCycle bounds how many script items go out per cycle (0 = 1).
	SendPerCycle int

	Sent     []sim.Msg
	Received []Received
	// OnRecv is called for each retrieved message.
	OnRecv func(m sim.Msg)

	SendRefused uint64 // Send failed because the outgoing buffer was full
	Quiet       bool
}

// NewRequester creates a requester with one port of the given buffer sizes.
func NewRequester(name string, engine sim.Engine, freq sim.Freq, ch *choice.Source, inBuf, outBuf int) *Requester {
	r := &Requester{ch: ch, freq: freq}
	r.TickingComponent = sim.NewTickingComponent(name, engine, freq, r)
	r.Port = sim.NewPort(r, inBuf, outBuf, name+".Port")
	r.AddPort("Port", r.Port)
	return r
}

// Add appends script items.
func (r *Requester) Add(items ...ScriptItem) {
	r.script = append(r.script, items...)
}

// Done reports whether the whole script has been sent.
func (r *Requester) Done() bool { return r.next >= len(r.script) }

// Remaining returns the number of unsent script items.
func (r *Requester) Remaining() int { return len(r.script) - r.next }

// Tick sends and receives.
func (r *Requester) Tick() bool {
	progress := false
	now := r.freq.Cycle(r.CurrentTime())

	hold := false
	if r.holdLeft > 0 && !r.Quiet {
		r.holdLeft--
		hold = true
		progress = true
	} else if !r.Quiet && r.Holds < r.MaxHolds && r.Port.PeekIncoming() != nil &&
		r.ch.Bool(r.HoldNum, r.HoldDen, "req.hold?") {
		hold = true
		r.Holds++
		if r.HoldBurstMax > 1 {
			r.holdLeft = r.ch.Intn(r.HoldBurstMax, "req.holdburst")
		}
		progress = true // come back next cycle
	}
	if !hold {
		n := 0
		for r.RetrievePerCycle == 0 || n < r.RetrievePerCycle {
			m := r.Port.RetrieveIncoming()
			if m == nil {
				break
			}
			n++
			r.Received = append(r.Received, Received{Cycle: now, Msg: m})
			if r.OnRecv != nil {
				r.OnRecv(m)
			}
			progress = true
		}
		if r.Port.PeekIncoming() != nil {
			progress = true
		}
	}

	limit := r.SendPerCycle
	if limit == 0 {
		limit = 1
	}
	for i := 0; i < limit && r.next < len(r.script); i++ {
		it := &r.script[r.next]
		if now < it.NotBefore {
			break
		}
		if it.Gate != nil && !it.Gate() {
			break
		}
		if !r.Port.CanSend() {
			r.SendRefused++
			break
		}
		m := it.Msg
		if it.Make != nil {
			m = it.Make()
		}
		m.Meta().Src = r.Port.AsRemote()
		if err := r.Port.Send(m); err != nil {
			r.SendRefused++
			break
		}
		r.Sent = append(r.Sent, m)
		if it.OnSent != nil {
			it.OnSent(m)
		}
		r.next++
		progress = true
	}

	// keep ticking while script items wait for their time or gate
	if r.next < len(r.script) {
		return true
	}
	return progress
}
