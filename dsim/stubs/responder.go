package stubs

import (
	"github.com/sarchlab/akita/v4/sim"

	"verif/dsim/choice"
)

// Responder is a generic adversarial server behind one port: it accepts
// requests at a drawn rate, computes the answer at arrival with Handle, and
// sends it after a drawn latency, possibly out of order. Handle may return nil
// (no answer) or several messages.
type Responder struct {
	*sim.TickingComponent

	Port  sim.Port
	ch    *choice.Source
	freq  sim.Freq
	cfg   MemConfig
	Serve func(req sim.Msg, cycle uint64) []sim.Msg

	pending []pendingRsp
	starves int
	Quiet   bool

	Accepted    uint64
	Starved     uint64
	OOOSent     uint64
	SendRefused uint64
	Spikes      uint64
}

// NewResponder creates the stub.
func NewResponder(name string, engine sim.Engine, freq sim.Freq, ch *choice.Source, cfg MemConfig, inBuf, outBuf int) *Responder {
	if cfg.MaxAccept < 1 {
		cfg.MaxAccept = 1
	}
	if cfg.MaxRespond < 1 {
		cfg.MaxRespond = 1
	}
	m := &Responder{ch: ch, freq: freq, cfg: cfg}
	m.TickingComponent = sim.NewTickingComponent(name, engine, freq, m)
	m.Port = sim.NewPort(m, inBuf, outBuf, name+".Port")
	m.AddPort("Port", m.Port)
	return m
}

// PendingResponses reports accepted but unanswered requests.
func (m *Responder) PendingResponses() int { return len(m.pending) }

// Tick accepts requests and sends responses.
func (m *Responder) Tick() bool {
	progress := false
	now := m.freq.Cycle(m.CurrentTime())

	for sent := 0; sent < m.cfg.MaxRespond; sent++ {
		var ready []int
		for i := range m.pending {
			if m.pending[i].readyAt <= now {
				ready = append(ready, i)
			}
		}
		if len(ready) == 0 {
			break
		}
		pick := ready[0]
		if m.cfg.OutOfOrder && len(ready) > 1 && !m.Quiet {
			pick = ready[m.ch.Intn(len(ready), "rsp.ooo")]
		}
		if !m.Port.CanSend() {
			m.SendRefused++
			break
		}
		p := m.pending[pick]
		if err := m.Port.Send(p.rsp); err != nil {
			m.SendRefused++
			break
		}
		if pick != 0 {
			m.OOOSent++
		}
		m.pending = append(m.pending[:pick], m.pending[pick+1:]...)
		progress = true
	}

	accept := m.cfg.MaxAccept
	if !m.Quiet && m.Port.PeekIncoming() != nil {
		if m.starves < m.cfg.MaxStarves && m.ch.Bool(m.cfg.StarveNum, m.cfg.StarveDen, "rsp.starve?") {
			accept = 0
			m.starves++
			m.Starved++
			progress = true
		} else if m.cfg.MaxAccept > 1 {
			accept = 1 + m.ch.Intn(m.cfg.MaxAccept, "rsp.accept")
		}
	}
	for i := 0; i < accept; i++ {
		item := m.Port.RetrieveIncoming()
		if item == nil {
			break
		}
		m.Accepted++
		lat := m.cfg.MinLatency
		if m.cfg.MaxLatency > m.cfg.MinLatency && !m.Quiet {
			lat += m.ch.Intn(m.cfg.MaxLatency-m.cfg.MinLatency+1, "rsp.lat")
		}
		if !m.Quiet && m.cfg.SpikeLatency > 0 && m.ch.Bool(m.cfg.SpikeNum, m.cfg.SpikeDen, "rsp.spike?") {
			lat = m.cfg.SpikeLatency
			m.Spikes++
		}
		for _, rsp := range m.Serve(item, now) {
			rsp.Meta().Src = m.Port.AsRemote()
			m.pending = append(m.pending, pendingRsp{rsp: rsp, readyAt: now + uint64(lat)})
		}
		progress = true
	}

	if len(m.pending) > 0 || m.Port.PeekIncoming() != nil {
		return true
	}
	return progress
}
