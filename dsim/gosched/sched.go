// Package gosched is the controlled goroutine scheduler for the real driver
// threads. It runs inside a testing/synctest bubble: every controlled
// goroutine parks at named yield points (hooks in amd/driver under the verif
// build tag, plus the seeded engine's between-events hook); the controller -
// the bubble's root goroutine, the only caller of synctest.Wait - waits until
// every goroutine is durably blocked, then releases exactly one parked
// goroutine chosen by the policy. When nobody is parked and the workload has
// not finished, every thread is blocked on a real channel: a deadlock / lost
// wake-up, reported with the schedule that led there.
package gosched

import (
	"bytes"
	"fmt"
	"runtime"
	"sort"
	"strconv"
	"strings"
	"sync"
	"testing/synctest"

	"verif/dsim/choice"
)

// Policy selects the next goroutine to run.
type Policy int

const (
	// Canonical runs application goroutines first (in name order), then the
	// driver's runAsync, and the engine last: one fixed schedule, so that a
	// seed is exactly one execution.
	Canonical Policy = iota
	// Explore draws the next goroutine from the decision source.
	Explore
)

type parked struct {
	name    string
	point   string
	release chan struct{}
}

// Sched is the controller.
type Sched struct {
	mu     sync.Mutex
	ch     *choice.Source
	policy Policy

	names  map[uint64]string // goroutine id -> logical name (application goroutines)
	parked []*parked

	running  int // application goroutines started and not finished
	finished map[string]bool

	// EngineBurstMax > 1 lets the engine run up to that many events between
	// two parks (drawn per park in Explore mode).
	EngineBurstMax int
	burstLeft      int

	// Trace is the schedule: the sequence of released (name@point).
	Trace       []string
	traceDigest uint64
	Switches    int
	lastName    string
	PointHits   map[string]int
	// MaxSteps bounds the number of scheduling decisions (0 = none).
	MaxSteps int
	Steps    int
}

// New creates a controller.
func New(ch *choice.Source, policy Policy) *Sched {
	return &Sched{ch: ch, policy: policy, names: map[uint64]string{}, finished: map[string]bool{},
		PointHits: map[string]int{}, traceDigest: 1469598103934665603}
}

func goid() uint64 {
	var buf [64]byte
	n := runtime.Stack(buf[:], false)
	// "goroutine 123 [running]:"
	f := bytes.Fields(buf[:n])
	id, _ := strconv.ParseUint(string(f[1]), 10, 64)
	return id
}

// Go starts a controlled application goroutine with a logical name. It parks
// once before running f so that the controller decides when it starts.
func (s *Sched) Go(name string, f func()) {
	s.mu.Lock()
	s.running++
	s.mu.Unlock()
	go func() {
		id := goid()
		s.mu.Lock()
		s.names[id] = name
		s.mu.Unlock()
		s.park(name, "start")
		defer func() {
			s.mu.Lock()
			s.running--
			s.finished[name] = true
			delete(s.names, id)
			s.mu.Unlock()
		}()
		f()
	}()
}

// role maps a yield point to the logical name of the driver goroutine that
// executes it.
func role(point string) string {
	switch {
	case strings.HasPrefix(point, "async."):
		return "~runAsync"
	case strings.HasPrefix(point, "engine."):
		return "~~engine"
	}
	return ""
}

// Yield is installed as driver.VerifYield.
func (s *Sched) Yield(point string) {
	name := role(point)
	if name == "" {
		s.mu.Lock()
		name = s.names[goid()]
		s.mu.Unlock()
		if name == "" {
			// a goroutine nobody registered (e.g. one the workload spawned):
			// not controlled
			return
		}
	}
	s.park(name, point)
}

// EngineYield is installed as the engine's BeforeEvent hook.
func (s *Sched) EngineYield() {
	if s.burstLeft > 0 {
		s.burstLeft--
		return
	}
	s.park("~~engine", "engine.event")
}

func (s *Sched) park(name, point string) {
	p := &parked{name: name, point: point, release: make(chan struct{})}
	s.mu.Lock()
	s.parked = append(s.parked, p)
	s.PointHits[point]++
	s.mu.Unlock()
	<-p.release // durable block
}

// Outcome of Run.
type Outcome struct {
	Deadlock bool
	// Blocked describes the state at a deadlock.
	Blocked  string
	StepsCap bool
}

// Run is the controller loop. It must be called on the root goroutine of the
// synctest bubble. done reports whether the workload has finished.
func (s *Sched) Run(done func() bool) Outcome {
	for {
		synctest.Wait()
		s.mu.Lock()
		if done() && s.running == 0 {
			// release everybody who is still parked (driver goroutines) so that
			// they can finish or block for good
			rest := s.parked
			s.parked = nil
			s.mu.Unlock()
			for _, p := range rest {
				close(p.release)
			}
			if len(rest) == 0 {
				return Outcome{}
			}
			s.policy = Canonical
			continue
		}
		if len(s.parked) == 0 {
			s.mu.Unlock()
			return Outcome{Deadlock: true, Blocked: s.describeBlocked()}
		}
		if s.MaxSteps > 0 && s.Steps >= s.MaxSteps {
			s.mu.Unlock()
			return Outcome{StepsCap: true}
		}
		sort.SliceStable(s.parked, func(i, j int) bool {
			if s.parked[i].name != s.parked[j].name {
				return s.parked[i].name < s.parked[j].name
			}
			return s.parked[i].point < s.parked[j].point
		})
		idx := 0
		if s.policy == Explore && len(s.parked) > 1 {
			idx = s.ch.Intn(len(s.parked), "sched")
		}
		p := s.parked[idx]
		s.parked = append(s.parked[:idx], s.parked[idx+1:]...)
		if p.name == "~~engine" && p.point == "engine.event" && s.EngineBurstMax > 1 {
			if s.policy == Explore {
				s.burstLeft = s.ch.Intn(s.EngineBurstMax, "sched.burst")
			} else {
				s.burstLeft = s.EngineBurstMax - 1
			}
		}
		s.Steps++
		if p.name != s.lastName {
			s.Switches++
			s.lastName = p.name
		}
		if len(s.Trace) < 4000 {
			s.Trace = append(s.Trace, p.name+"@"+p.point)
		}
		for i := 0; i < len(p.name); i++ {
			s.traceDigest = (s.traceDigest ^ uint64(p.name[i])) * 1099511628211
		}
		for i := 0; i < len(p.point); i++ {
			s.traceDigest = (s.traceDigest ^ uint64(p.point[i])) * 1099511628211
		}
		s.mu.Unlock()
		close(p.release)
	}
}

// Digest is a digest of the schedule.
func (s *Sched) Digest() uint64 { return s.traceDigest }

func (s *Sched) describeBlocked() string {
	buf := make([]byte, 1<<18)
	n := runtime.Stack(buf, true)
	var out []string
	for _, g := range strings.Split(string(buf[:n]), "\n\n") {
		lines := strings.Split(g, "\n")
		if len(lines) < 2 {
			continue
		}
		head := lines[0]
		if !strings.Contains(head, "synctest") && !strings.Contains(head, "durable") {
			continue
		}
		// first frame inside the code under test
		where := ""
		for _, l := range lines[1:] {
			if strings.HasPrefix(l, "github.com/sarchlab/mgpusim") {
				where = strings.TrimSpace(l)
				if i := strings.LastIndex(where, "("); i > 0 {
					where = where[:i]
				}
				break
			}
		}
		if where != "" {
			state := head[strings.Index(head, "[")+1:]
			if i := strings.Index(state, ","); i > 0 {
				state = state[:i]
			}
			out = append(out, fmt.Sprintf("%s in %s", strings.TrimSuffix(state, "]:"), where))
		}
	}
	sort.Strings(out)
	return strings.Join(out, "; ")
}
