// Command check runs one property's simulated check (see harness.Main).
package main

import (
	"verif/dsim/harness"
	"verif/dsim/props/c15"
)

func main() {
	reg := map[string]harness.Harness{
		"C15": c15.H{},
	}
	harness.Main(reg)
}
