// Command check runs one property's simulated check (see harness.Main).
package main

import (
	"verif/dsim/harness"
	"verif/dsim/plat"
	"verif/dsim/props/c05"
	"verif/dsim/props/c09"
	"verif/dsim/props/c10"
	"verif/dsim/props/c14emu"
	"verif/dsim/props/c15"
	"verif/dsim/props/c16"
	"verif/dsim/props/c17"
	"verif/dsim/props/c18"
	"verif/dsim/props/c19"
	"verif/dsim/props/c20"
)

func main() {
	reg := map[string]harness.Harness{
		"C01": harness.External{Property: "C01", Ver: "c01-v1", M: plat.C01Meta(), Quick: 960, Thor: 30000, Bin: "plat.test", TestName: "TestJob", Classify: plat.ClassifyExitC01},
		"C02": harness.External{Property: "C02", Ver: "c02-v4", M: plat.C02Meta(), Quick: 480, Thor: 12000, Bin: "plat.test", TestName: "TestJob", Classify: plat.ClassifyExit},
		"C05": c05.H{Child: harness.External{Property: "C05", ChildKey: "C11", Ver: "c05-child-v4", M: plat.C11Meta(), Bin: "plat.test", TestName: "TestJob", Classify: plat.ClassifyExit}},
		"C08": harness.Multi{Property: "C08", Parts: []harness.Harness{
			harness.External{Property: "C08", Ver: "c08-plat-v1", M: plat.C08Meta(), Quick: 400, Thor: 20000, Bin: "plat.test", TestName: "TestJob", Classify: plat.ClassifyExit},
			c09.H{Filters: true, Prop: "C08"},
		}, Weights: []int{1, 5}, Quick: 2400, Thor: 240000},
		"C09": c09.H{},
		"C10": c10.H{},
		"C11": harness.External{Property: "C11", Ver: "c11-v7", M: plat.C11Meta(), Quick: 600, Thor: 20000, Bin: "plat.test", TestName: "TestJob", Classify: plat.ClassifyExit},
		"C12": harness.External{Property: "C12", Ver: "c12-v5", M: plat.C12Meta(), Quick: 2400, Thor: 60000, Bin: "plat.test", TestName: "TestJob", Classify: plat.ClassifyExit},
		"C14": harness.Multi{Property: "C14", Parts: []harness.Harness{
			harness.External{Property: "C14", Ver: "c14-v3", M: plat.C14Meta(), Quick: 800, Thor: 20000, Bin: "plat.test", TestName: "TestJob", Classify: plat.ClassifyExit},
			c14emu.H{},
		}, Weights: []int{1, 10}, Quick: 8800, Thor: 220000},
		"C15": c15.H{},
		"C16": c16.H{},
		"C17": c17.H{},
		"C18": harness.Multi{Property: "C18", Parts: []harness.Harness{
			c18.Ring{},
			harness.External{Property: "C18", Ver: "c18-plat-v3", M: plat.C18Meta(), Quick: 300, Thor: 15000, Bin: "plat.test", TestName: "TestJob", Classify: plat.ClassifyExit},
		}, Weights: []int{4, 1}, Quick: 1800, Thor: 120000},
		"C19": harness.Multi{Property: "C19", Parts: []harness.Harness{c19.Ring{}, c19.Handshake{}, c19.CPHandshake{}, c19.CPScript{}}, Weights: []int{4, 2, 1, 1}, Quick: 24000, Thor: 660000},
		"C20": c20.H{},
	}
	harness.Main(reg)
}
