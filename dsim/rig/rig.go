// Package rig assembles the common parts of a component harness: the seeded
// engine, the faulty connections, the recorder, and the swarm of fault kinds.
package rig

import (
	"fmt"
	"hash/fnv"

	"github.com/sarchlab/akita/v4/sim"

	"verif/dsim/choice"
	"verif/dsim/monitor"
	"verif/dsim/simengine"
	"verif/dsim/simnet"
	"verif/dsim/stubs"
)

// Swarm says which fault kinds are enabled in this run.
type Swarm struct {
	Tie, Delay, Stall, Cap, Starve, OOO, Hold, Spike bool
}

// Rig is the common scaffolding of one component run.
type Rig struct {
	Ch         *choice.Source
	Eng        *simengine.SeededEngine
	Freq       sim.Freq
	Rec        *monitor.Recorder
	Swarm      Swarm
	Conns      []*simnet.FaultyConn
	Mems       []*stubs.Memory
	Resps      []*stubs.Responder
	Reqs       []*stubs.Requester
	Horizon    uint64 // cycles
	HitHorizon bool
	cfgHash    uint64
	// StallLimit is the number of cycles without any monitored port event
	// after which the run is declared stalled.
	StallLimit   uint64
	Stalled      bool
	lastProgress uint64
	// ConnTweak, when set, may adjust a connection's drawn configuration.
	ConnTweak func(name string, cfg *simnet.Config)
	// Abort, when set and true, ends the run (first violation found).
	Abort func() bool
	// Kick lists further components to start ticking when the run starts.
	Kick []interface{ TickLater() }
}

// New draws the swarm and builds the engine. faultFree forces every kind off.
func New(ch *choice.Source, horizon uint64) *Rig {
	r := &Rig{Ch: ch, Freq: 1 * sim.GHz, Horizon: horizon}
	// one run in 8 is completely fault free, so relaxations made for faults
	// can never hide an ordinary bug.
	faultFree := ch.Intn(8, "swarm.faultfree") == 7
	draw := func(l string) bool {
		v := ch.Bool(1, 2, "swarm."+l)
		return v && !faultFree
	}
	r.Swarm = Swarm{
		Tie: draw("tie"), Delay: draw("delay"), Stall: draw("stall"), Cap: draw("cap"),
		Starve: draw("starve"), OOO: draw("ooo"), Hold: draw("hold"), Spike: draw("spike"),
	}
	mode := simengine.Faithful
	if r.Swarm.Tie {
		mode = simengine.Permute
	}
	r.Eng = simengine.New(mode, ch)
	r.Eng.PermuteSecondary = true
	r.Eng.MaxEvents = 4_000_000
	r.Eng.Stop = func() bool {
		if r.Abort != nil && r.Abort() {
			return true
		}
		cyc := r.Freq.Cycle(r.Eng.CurrentTime())
		if cyc > r.lastProgress+r.StallLimit {
			// No message moved on any monitored port for StallLimit cycles: every
			// injected fault is bounded far below that, so whatever is still
			// pending will never complete.
			r.Stalled = true
			return true
		}
		if cyc > r.Horizon {
			r.HitHorizon = true
			return true
		}
		return false
	}
	r.Rec = monitor.New(r.Eng)
	r.StallLimit = 20_000
	r.Rec.OnAny = func() { r.lastProgress = r.Freq.Cycle(r.Eng.CurrentTime()) }
	r.Mix("swarm", r.Swarm)
	return r
}

// Mix folds a configuration value into the configuration digest.
func (r *Rig) Mix(label string, v any) {
	f := fnv.New64a()
	fmt.Fprintf(f, "%d|%s|%+v", r.cfgHash, label, v)
	r.cfgHash = f.Sum64()
}

// ConfigDigest returns the digest of everything mixed in.
func (r *Rig) ConfigDigest() uint64 { return r.cfgHash }

// Conn creates a faulty connection between the given ports.
func (r *Rig) Conn(name string, ports ...sim.Port) *simnet.FaultyConn {
	cfg := simnet.Config{}
	if r.Swarm.Delay {
		cfg.MaxDelay = 1 + r.Ch.Intn(12, "conn.maxdelay")
		cfg.DelayNum, cfg.DelayDen = 1+r.Ch.Intn(3, "conn.delaynum"), 4
	}
	if r.Swarm.Stall {
		cfg.MaxStall = 1 + r.Ch.Intn(20, "conn.maxstall")
		cfg.StallNum, cfg.StallDen = 1, 4+r.Ch.Intn(28, "conn.stallden")
		cfg.MaxStalls = 1 + r.Ch.Intn(12, "conn.maxstalls")
	}
	if r.Swarm.Cap {
		cfg.InFlightCap = 1 + r.Ch.Intn(4, "conn.cap")
	}
	cfg.ShuffleServe = r.Swarm.Tie
	if r.Ch.Bool(1, 3, "conn.perdst") {
		cfg.DeliverPerDst = 1 + r.Ch.Intn(2, "conn.perdstn")
	}
	if r.ConnTweak != nil {
		r.ConnTweak(name, &cfg)
	}
	r.Mix("conn."+name, cfg)
	c := simnet.New(name, r.Eng, r.Freq, r.Ch, cfg)
	for _, p := range ports {
		c.PlugIn(p)
	}
	r.Conns = append(r.Conns, c)
	return c
}

// MemConfig draws the knobs of a memory stub.
func (r *Rig) MemConfig(label string) stubs.MemConfig {
	cfg := stubs.MemConfig{MaxAccept: 1 + r.Ch.Intn(4, "mem.maxaccept"), MaxRespond: 1 + r.Ch.Intn(4, "mem.maxrespond")}
	cfg.MinLatency = r.Ch.Intn(4, "mem.minlat")
	cfg.MaxLatency = cfg.MinLatency
	if r.Swarm.OOO {
		cfg.OutOfOrder = true
		cfg.MaxLatency = cfg.MinLatency + 1 + r.Ch.Intn(40, "mem.latspan")
	}
	if r.Swarm.Starve {
		cfg.StarveNum, cfg.StarveDen = 1, 2+r.Ch.Intn(6, "mem.starveden")
		cfg.MaxStarves = 1 + r.Ch.Intn(40, "mem.maxstarves")
	}
	if r.Swarm.Spike {
		cfg.SpikeNum, cfg.SpikeDen = 1, 4+r.Ch.Intn(12, "mem.spikeden")
		cfg.SpikeLatency = 50 + r.Ch.Intn(400, "mem.spikelat")
	}
	r.Mix("mem."+label, cfg)
	return cfg
}

// Memory creates a memory stub.
func (r *Rig) Memory(name string, inBuf, outBuf int) *stubs.Memory {
	m := stubs.NewMemory(name, r.Eng, r.Freq, r.Ch, r.MemConfig(name), inBuf, outBuf)
	r.Mems = append(r.Mems, m)
	return m
}

// Responder creates a generic responder stub.
func (r *Rig) Responder(name string, inBuf, outBuf int, handle func(sim.Msg, uint64) []sim.Msg) *stubs.Responder {
	m := stubs.NewResponder(name, r.Eng, r.Freq, r.Ch, r.MemConfig(name), inBuf, outBuf)
	m.Serve = handle
	r.Resps = append(r.Resps, m)
	return m
}

// Requester creates a requester stub.
func (r *Rig) Requester(name string, inBuf, outBuf int) *stubs.Requester {
	q := stubs.NewRequester(name, r.Eng, r.Freq, r.Ch, inBuf, outBuf)
	if r.Swarm.Hold {
		q.HoldNum, q.HoldDen = 1, 2+r.Ch.Intn(6, "req.holdden")
		q.MaxHolds = 1 + r.Ch.Intn(30, "req.maxholds")
		if r.Ch.Bool(1, 3, "req.longhold") {
			q.HoldBurstMax = 2 + r.Ch.Intn(300, "req.holdburst")
		}
	}
	q.RetrievePerCycle = r.Ch.Intn(3, "req.retr")
	q.SendPerCycle = 1 + r.Ch.Intn(4, "req.sendpc")
	r.Mix("req."+name, []int{q.HoldDen, q.MaxHolds, q.HoldBurstMax, q.RetrievePerCycle, q.SendPerCycle})
	r.Reqs = append(r.Reqs, q)
	return q
}

// Run runs the engine until quiescence, the horizon or the event cap.
// It returns "" on quiescence, otherwise the reason.
func (r *Rig) Run() string {
	for _, q := range r.Reqs {
		q.TickLater()
	}
	for _, k := range r.Kick {
		k.TickLater()
	}
	_ = r.Eng.Run()
	if r.Eng.Stats.CapHit {
		return "event-cap"
	}
	if r.Stalled {
		return "stalled"
	}
	if r.HitHorizon {
		return "horizon"
	}
	return ""
}

// Cycle returns the current cycle.
func (r *Rig) Cycle() uint64 { return r.Freq.Cycle(r.Eng.CurrentTime()) }

// Faults returns the fault counters that actually fired.
func (r *Rig) Faults() map[string]uint64 {
	f := map[string]uint64{}
	f["tie_reorder"] = r.Eng.Stats.TieReordered + r.Eng.Stats.SecReordered
	for _, c := range r.Conns {
		f["delay"] += c.Stats.Delayed
		f["cross_reorder"] += c.Stats.CrossReorder
		f["backpressure"] += c.Stats.StallWindows + c.Stats.SrcCapBlocked
	}
	for _, m := range r.Mems {
		f["slow_lower_level"] += m.Starved + m.Spikes
		f["ooo_response"] += m.OOOSent
	}
	for _, m := range r.Resps {
		f["slow_lower_level"] += m.Starved + m.Spikes
		f["ooo_response"] += m.OOOSent
	}
	for _, q := range r.Reqs {
		f["backpressure"] += uint64(q.Holds)
	}
	return f
}

// AnyFault reports whether any fault fired.
func AnyFault(f map[string]uint64) bool {
	for _, v := range f {
		if v > 0 {
			return true
		}
	}
	return false
}

// Misrouted collects the misrouted messages of all connections.
func (r *Rig) Misrouted() []string {
	var out []string
	for _, c := range r.Conns {
		out = append(out, c.Misrouted...)
	}
	return out
}
