package rig

import (
	"github.com/sarchlab/akita/v4/mem/mem"
	"github.com/sarchlab/akita/v4/sim"

	"verif/dsim/stubs"
)

// FlushCtl drives mem.ControlMsg discard/restart episodes against a
// component's control port, the way the command processor does when it
// flushes a GPU: discard, wait for the acknowledgement, wait a while, restart,
// wait for the acknowledgement. Flushing is the requester-side view: true from
// the moment the discard request is sent until the restart acknowledgement is
// received (the real requester, a compute unit, is paused in that window).
type FlushCtl struct {
	Ctrl     *stubs.Requester
	Flushing bool
	Episodes int
	state    int // 0 idle, 1 discard sent, 2 discard acked, 3 restart sent
	acks     int
	// OnResume is called when the restart acknowledgement arrives.
	OnResume func()
}

// NewFlushCtl creates the control agent and its script. The discard requests
// are placed at drawn instants biased into the traffic window [0,traffic+40).
func (r *Rig) NewFlushCtl(ctrlPort sim.Port, episodes int, traffic uint64) *FlushCtl {
	fc := &FlushCtl{Episodes: episodes}
	fc.Ctrl = stubs.NewRequester("Ctrl", r.Eng, r.Freq, r.Ch, 2, 2)
	r.Kick = append(r.Kick, fc.Ctrl)
	last := uint64(0)
	for f := 0; f < episodes; f++ {
		at := last + 2 + uint64(r.Ch.Intn(int(traffic)+40, "flush.at"))
		last = at
		wait := uint64(1 + r.Ch.Intn(30, "restart.wait"))
		var ackCycle uint64
		d := mem.ControlMsgBuilder{}.WithDst(ctrlPort.AsRemote()).ToDiscardTransactions().Build()
		rs := mem.ControlMsgBuilder{}.WithDst(ctrlPort.AsRemote()).ToRestart().Build()
		fc.Ctrl.Add(stubs.ScriptItem{NotBefore: at, Msg: d,
			Gate:   func() bool { return fc.state == 0 },
			OnSent: func(sim.Msg) { fc.state = 1; fc.Flushing = true }})
		fc.Ctrl.Add(stubs.ScriptItem{Msg: rs,
			Gate: func() bool {
				if fc.state == 2 && ackCycle == 0 {
					ackCycle = r.Cycle()
				}
				return fc.state == 2 && r.Cycle() >= ackCycle+wait
			},
			OnSent: func(sim.Msg) { fc.state = 3 }})
	}
	fc.Ctrl.OnRecv = func(m sim.Msg) {
		cm, ok := m.(*mem.ControlMsg)
		if !ok || !cm.NotifyDone {
			return
		}
		switch fc.state {
		case 1:
			fc.state = 2
		case 3:
			fc.state = 0
			fc.Flushing = false
			if fc.OnResume != nil {
				fc.OnResume()
			}
		}
	}
	r.Mix("flushes", episodes)
	return fc
}

// AckEvent classifies an acknowledgement the component sends on its control
// port (called by the oracle on the port event): "discard", "restart" or
// "extra" (more acknowledgements than requests).
func (fc *FlushCtl) AckEvent() string {
	fc.acks++
	if fc.acks > 2*fc.Episodes {
		return "extra"
	}
	if fc.acks%2 == 1 {
		return "discard"
	}
	return "restart"
}

// Completed reports the number of completed episodes (restart acknowledged).
func (fc *FlushCtl) Completed() int { return fc.acks / 2 }

// Done reports whether the whole handshake script finished.
func (fc *FlushCtl) Done() bool { return fc.state == 0 && fc.Ctrl.Done() }

// State exposes the handshake state for diagnostics.
func (fc *FlushCtl) State() int { return fc.state }
