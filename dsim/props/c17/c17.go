// Package c17 decides property C17 (the DRAM model behaves as a memory) by
// simulating the real simplebankedmemory.Comp under a swarm of configurations
// against a flat byte-array model applied in arrival order.
package c17

import (
	"fmt"

	"github.com/sarchlab/akita/v4/mem/mem"
	"github.com/sarchlab/akita/v4/sim"
	"github.com/sarchlab/mgpusim/v4/amd/timing/mem/simplebankedmemory"

	"verif/dsim/choice"
	"verif/dsim/harness"
	"verif/dsim/monitor"
	"verif/dsim/rig"
	"verif/dsim/stubs"
)

// H is the harness.
type H struct{}

// ID implements harness.Harness.
func (H) ID() string { return "C17" }

// Version implements harness.Harness.
func (H) Version() string { return "c17-v2" }

// Runs implements harness.Harness.
func (H) Runs(tier string) int {
	if tier == "thorough" {
		return 600000
	}
	return 24000
}

// Meta implements harness.Harness.
func (H) Meta() harness.Meta {
	return harness.Meta{
		Rule: "each run = one seeded (configuration, request history, arrival timing, fault sequence): real simplebankedmemory.Comp with drawn banks 1-32, interleave 2^6-2^12, " +
			"pipeline width 1-4 / depth 1-8 / stage latency 1-4, row size off or 2^8-2^12, row-miss delay 0-60, top-port and post-pipeline buffers 1-16, with/without bank and storage address converters " +
			"(one run in 10 uses exactly the parameters timingconfig/mi300a ships); 5-300 reads / full writes / masked writes of 1-64 B inside one 64 B block over a small set of hot blocks " +
			"(same row, same bank other row, other banks); 1-2 requesters; delayed/stalled connections, responses held back, same-time events permuted. " +
			"non-trivial = at least one fault fired or tie reordered, at least one read observed an earlier write, and all requests were answered; distinct = distinct (configuration digest, port-event-order digest)",
		RealComponents: []string{"amd/timing/mem/simplebankedmemory.Comp (its own Builder)", "akita pipelining.Pipeline", "akita mem.Storage", "akita mem.InterleavingConverter", "akita sim.Port"},
		StubComponents: []string{"requesters (scripted)", "engine (SeededEngine)", "connection (FaultyConn)"},
		Assumptions: []string{
			"every access lies inside one 64-byte aligned block (what the caches above the DRAM issue), so overlapping accesses are always routed to the same bank",
			"arrival order = order of delivery into the component's top port (one global event sequence number each)",
			"links are reliable and FIFO per pair",
		},
		FaultKinds:     []string{"tie_reorder", "delay", "cross_reorder", "backpressure", "config_swarm"},
		ExpectedProbes: []string{"read_after_write_same_bytes", "row_tracking_on", "masked_write", "response_backpressure", "mi300a_parameters", "same_row_followup_within_delay"},
		ShrinkBudget:   500,
	}
}

type cfg struct {
	Banks, Width, Depth, StageLat int
	Log2Interleave                uint64
	RowLog2                       uint64
	RowMissDelay                  int
	TopBuf, PostBuf               int
	BankConv, StoreConv           bool
	ConvElems, ConvIdx            int
	MI300A                        bool
	NReq, NRequesters, Hot        int
}

type reqInfo struct {
	idx      int
	isWrite  bool
	addr     uint64 // external address
	size     int
	data     []byte
	mask     []bool
	arrived  bool
	arrSeq   uint64
	rspSeq   uint64
	expected []byte
	answers  int
}

// Run implements harness.Harness.
func (H) Run(ch *choice.Source, opt harness.Options) harness.Result {
	r := rig.New(ch, 2_000_000)
	c := cfg{}
	if ch.Intn(10, "mi300a?") == 9 {
		c = cfg{Banks: 16, Width: 1, Depth: 5, StageLat: 1, Log2Interleave: 6, RowLog2: 11, RowMissDelay: 52,
			TopBuf: 1024, PostBuf: 128, BankConv: true, ConvElems: 1 << ch.Intn(4, "conv.elems"), MI300A: true}
		c.ConvIdx = ch.Intn(c.ConvElems, "conv.idx")
	} else {
		c.Banks = 1 + ch.Intn(32, "banks")
		if ch.Bool(1, 2, "fewbanks") {
			c.Banks = 1 + ch.Intn(4, "banks.few")
		}
		// half of the runs use the width every shipped platform uses (1)
		c.Width = 1
		if ch.Bool(1, 2, "wide?") {
			c.Width = 2 + ch.Intn(3, "width")
		}
		c.Depth = 1 + ch.Intn(8, "depth")
		c.StageLat = 1 + ch.Intn(4, "stagelat")
		c.Log2Interleave = 6 + uint64(ch.Intn(7, "interleave"))
		if ch.Bool(2, 3, "rows?") {
			c.RowLog2 = 8 + uint64(ch.Intn(5, "rowlog2"))
			c.RowMissDelay = ch.Intn(61, "rowmiss")
		}
		c.TopBuf = 1 + ch.Intn(16, "topbuf")
		c.PostBuf = 1 + ch.Intn(16, "postbuf")
		switch ch.Intn(4, "conv") {
		case 1:
			c.BankConv = true
		case 2:
			c.StoreConv = true
		}
		if c.BankConv || c.StoreConv {
			c.ConvElems = 1 + ch.Intn(4, "conv.elems")
			c.ConvIdx = ch.Intn(c.ConvElems, "conv.idx")
		}
	}
	c.NReq = 5 + ch.Intn(60, "nreq")
	if ch.Bool(1, 6, "long") {
		c.NReq += ch.Intn(240, "nreq+")
	}
	c.NRequesters = 1 + ch.Intn(2, "nrequesters")
	c.Hot = 1 + ch.Intn(6, "hot")
	r.Mix("cfg", c)

	b := simplebankedmemory.MakeBuilder().WithEngine(r.Eng).WithFreq(r.Freq).
		WithNumBanks(c.Banks).WithBankPipelineWidth(c.Width).WithBankPipelineDepth(c.Depth).
		WithStageLatency(c.StageLat).WithLog2InterleaveSize(c.Log2Interleave).
		WithTopPortBufferSize(c.TopBuf).WithPostPipelineBufferSize(c.PostBuf).
		WithRowBufferSizeLog2(c.RowLog2).WithRowMissDelay(c.RowMissDelay).
		WithNewStorage(4 * mem.GB)
	const convIS = 4096
	conv := mem.InterleavingConverter{InterleavingSize: convIS, TotalNumOfElements: c.ConvElems, CurrentElementIndex: c.ConvIdx}
	if c.BankConv {
		b = b.WithBankAddressConverter(&conv)
	}
	if c.StoreConv {
		b = b.WithAddressConverter(&conv)
	}
	comp := b.Build("DRAM")
	top := comp.GetPortByName("Top")
	toExternal := func(internal uint64) uint64 {
		if !c.BankConv && !c.StoreConv {
			return internal
		}
		return internal/convIS*convIS*uint64(c.ConvElems) + uint64(c.ConvIdx)*convIS + internal%convIS
	}

	var requesters []*stubs.Requester
	ports := []sim.Port{top}
	for i := 0; i < c.NRequesters; i++ {
		q := r.Requester(fmt.Sprintf("Req%d", i), 1+ch.Intn(8, "req.inbuf"), 1+ch.Intn(8, "req.outbuf"))
		requesters = append(requesters, q)
		ports = append(ports, q.Port)
	}
	r.Conn("Conn", ports...)
	r.Rec.Attach(top, "top")

	// hot blocks, in the address space the banks see (internal)
	interleaveBlocks := uint64(1) << (c.Log2Interleave - 6) // 64-byte blocks per interleave granule
	rowBlocks := uint64(4)
	if c.RowLog2 > 0 {
		rowBlocks = (uint64(1) << c.RowLog2) / 64
	}
	hot := make([]uint64, c.Hot) // 64-byte block numbers
	for i := range hot {
		bank := uint64(ch.Intn(c.Banks, "hot.bank"))
		if i > 0 && ch.Bool(1, 2, "hot.samebank") {
			// same bank as the previous hot block
			prevGran := hot[i-1] / interleaveBlocks
			bank = prevGran % uint64(c.Banks)
		}
		// bank-local granule: a few rows near the start
		var localGran uint64
		switch ch.Intn(4, "hot.row") {
		case 0:
			localGran = 0
		case 1:
			localGran = uint64(ch.Intn(3, "hot.lg"))
		case 2:
			localGran = (rowBlocks/interleaveBlocks + 1) * uint64(1+ch.Intn(3, "hot.rowk"))
		case 3:
			localGran = uint64(ch.Intn(64, "hot.far"))
		}
		gran := localGran*uint64(c.Banks) + bank
		hot[i] = gran*interleaveBlocks + uint64(ch.Intn(int(interleaveBlocks), "hot.blk"))
	}

	reqs := make([]*reqInfo, c.NReq)
	byID := map[string]*reqInfo{}
	gapMax := ch.Intn(5, "gapmax")
	cycles := make([]uint64, c.NRequesters)
	for i := 0; i < c.NReq; i++ {
		ri := &reqInfo{idx: i}
		blk := hot[ch.Intn(len(hot), "blk")]
		off := ch.Intn(64, "off")
		ri.size = 1 + ch.Intn(64-off, "size")
		if ch.Bool(1, 3, "aligned") {
			off = 0
			ri.size = 64
			if ch.Bool(1, 2, "small") {
				ri.size = 4
				off = 4 * ch.Intn(16, "off4")
			}
		}
		ri.addr = toExternal(blk*64 + uint64(off))
		ri.isWrite = ch.Bool(1, 2, "w?")
		which := ch.Intn(c.NRequesters, "which")
		q := requesters[which]
		var m sim.Msg
		if ri.isWrite {
			ri.data = ch.Bytes(ri.size, "data")
			wb := mem.WriteReqBuilder{}.WithDst(top.AsRemote()).WithAddress(ri.addr).WithData(ri.data)
			if ch.Bool(1, 3, "mask?") {
				ri.mask = make([]bool, ri.size)
				mv := ch.Intn(1<<16, "mask")
				for k := range ri.mask {
					ri.mask[k] = (mv>>(k%16))&1 == 1
				}
				wb = wb.WithDirtyMask(ri.mask)
			}
			m = wb.Build()
		} else {
			m = mem.ReadReqBuilder{}.WithDst(top.AsRemote()).WithAddress(ri.addr).WithByteSize(uint64(ri.size)).Build()
		}
		reqs[i] = ri
		byID[m.Meta().ID] = ri
		cycles[which] += uint64(ch.Intn(gapMax+1, "gap"))
		q.Add(stubs.ScriptItem{NotBefore: cycles[which], Msg: m})
	}

	// ---- oracle ----
	var viol *harness.Result
	fail := func(rule, sig, format string, a ...any) {
		if viol == nil {
			viol = &harness.Result{Rule: rule, Signature: sig, Detail: fmt.Sprintf(format, a...)}
		}
	}
	r.Abort = func() bool { return viol != nil }
	model := map[uint64]byte{}
	lastWriter := map[uint64]int{}      // byte -> request index of the last write
	lastWriteSeq := map[uint64]uint64{} // block -> seq of last write arrival
	probes := map[string]uint64{}
	if c.MI300A {
		probes["mi300a_parameters"] = 1
	}
	if c.RowLog2 > 0 && c.RowMissDelay > 0 {
		probes["row_tracking_on"] = 1
	}
	answered := 0
	sawRAW := false
	var lastArrBlock uint64 = ^uint64(0)
	var lastArrCycle uint64

	r.Rec.OnEvent = func(e *monitor.Event) {
		switch e.Kind {
		case monitor.Recvd:
			ri := byID[e.Msg.Meta().ID]
			if ri == nil {
				harness.Bug("unknown request delivered to the DRAM")
			}
			if ri.arrived {
				harness.Bug("request delivered twice by the connection")
			}
			ri.arrived = true
			ri.arrSeq = e.Seq
			blk := ri.addr / 64
			if blk/(rowBlocks) == lastArrBlock/(rowBlocks) && r.Cycle()-lastArrCycle <= uint64(c.RowMissDelay) && c.RowMissDelay > 0 {
				probes["same_row_followup_within_delay"]++
			}
			lastArrBlock, lastArrCycle = blk, r.Cycle()
			if ri.isWrite {
				for k := 0; k < ri.size; k++ {
					if ri.mask == nil || ri.mask[k] {
						model[ri.addr+uint64(k)] = ri.data[k]
						lastWriter[ri.addr+uint64(k)] = ri.idx
					}
				}
				if ri.mask != nil {
					probes["masked_write"]++
				}
				lastWriteSeq[blk] = e.Seq
			} else {
				ri.expected = make([]byte, ri.size)
				for k := range ri.expected {
					v, ok := model[ri.addr+uint64(k)]
					if ok {
						sawRAW = true
						probes["read_after_write_same_bytes"]++
					}
					ri.expected[k] = v
				}
			}
		case monitor.Send:
			rsp, ok := e.Msg.(mem.AccessRsp)
			if !ok {
				fail("R1", "non-response", "%T sent on the top port", e.Msg)
				return
			}
			ri := byID[rsp.GetRspTo()]
			if ri == nil {
				fail("R1", "unknown-respond-to", "response carries id %q of no request", rsp.GetRspTo())
				return
			}
			ri.answers++
			if ri.answers == 1 {
				ri.rspSeq = e.Seq
			}
			if ri.answers > 1 {
				fail("R1", "duplicate-response", "request %d answered %d times", ri.idx, ri.answers)
				return
			}
			if !ri.arrived {
				fail("R1", "response-before-arrival", "request %d answered before it arrived", ri.idx)
				return
			}
			answered++
			switch x := e.Msg.(type) {
			case *mem.DataReadyRsp:
				if ri.isWrite {
					fail("R1", "wrong-response-type", "write %d answered with data", ri.idx)
					return
				}
				if len(x.Data) != ri.size {
					fail("R2", "read-length", "read %d returned %d bytes, wanted %d", ri.idx, len(x.Data), ri.size)
					return
				}
				for k := range x.Data {
					if x.Data[k] != ri.expected[k] {
						w, has := lastWriter[ri.addr+uint64(k)]
						what := "stale-or-wrong-value"
						_ = w
						_ = has
						fail("R2", what, "read %d (addr %#x size %d) byte %d = %#x, model (latest earlier-arrived write) = %#x",
							ri.idx, ri.addr, ri.size, k, x.Data[k], ri.expected[k])
						return
					}
				}
			case *mem.WriteDoneRsp:
				if !ri.isWrite {
					fail("R1", "wrong-response-type", "read %d answered with write-done", ri.idx)
				}
			}
		}
	}

	opt.Describe(map[string]any{"config": c, "swarm": r.Swarm})
	end := r.Run()

	res := harness.Result{
		ConfigDigest: r.ConfigDigest(), OrderDigest: r.Rec.Digest(),
		Events: r.Eng.Stats.Events, SimTime: float64(r.Eng.CurrentTime()),
		Faults: r.Faults(), Probes: probes,
	}
	res.Faults["config_swarm"] = 1
	for _, q := range requesters {
		probes["response_backpressure"] += uint64(q.Holds)
	}

	if viol == nil {
		if mr := r.Misrouted(); len(mr) > 0 {
			fail("R1", "misrouted", "message to an unknown port: %s", mr[0])
		}
	}
	if viol == nil {
		if end == "event-cap" {
			res.Inconclusive = "event-cap"
		} else {
			for _, ri := range reqs {
				if ri.answers == 0 {
					fail("LIVE", "request-unanswered", "request %d (arrived=%v) never answered; end=%q", ri.idx, ri.arrived, end)
					break
				}
			}
		}
	}
	if viol == nil && res.Inconclusive == "" {
		// final storage equals the model on every byte any request touched
		for _, ri := range reqs {
			sa := ri.addr
			if c.StoreConv {
				sa = conv.ConvertExternalToInternal(ri.addr)
			}
			got, err := comp.Storage.Read(sa, uint64(ri.size))
			if err != nil {
				harness.Bug("storage read: %v", err)
			}
			for k := range got {
				if got[k] != model[ri.addr+uint64(k)] {
					rule, sig := "R4", "final-storage"
					if ri.mask != nil && !ri.mask[k] {
						// a masked write whose disabled byte differs from the model
						rule, sig = "R3", "masked-write-touched-disabled-byte-or-lost-write"
					}
					fail(rule, sig, "final storage at %#x = %#x, model = %#x (request %d)", ri.addr+uint64(k), got[k], model[ri.addr+uint64(k)], ri.idx)
					break
				}
			}
			if viol != nil {
				break
			}
		}
	}
	res.Nontrivial = rig.AnyFault(r.Faults()) && sawRAW && answered == len(reqs)
	if viol != nil {
		res.Rule, res.Signature, res.Detail = viol.Rule, viol.Signature, viol.Detail
		if viol.Rule == "R2" || viol.Rule == "R3" || viol.Rule == "R4" {
			// Diagnose the mechanism from the history alone: were two requests
			// to the same 64-byte block (hence the same bank) answered in the
			// reverse of their arrival order?
			res.Signature += "/" + overtakeDiagnosis(reqs, c)
		}
	}
	if opt.Verbose || res.Failed() {
		res.Sample = map[string]any{
			"config": c, "swarm": r.Swarm, "answered": answered, "events": res.Events, "end": end,
			"requests": describeReqs(reqs, 12),
		}
	}
	if res.Failed() {
		res.Log = r.Rec.Dump(80, describe(byID))
	}
	return res
}

// overtakeDiagnosis names the mechanism of a value mismatch.
func overtakeDiagnosis(reqs []*reqInfo, c cfg) string {
	inverted := false
	for _, a := range reqs {
		if !a.arrived {
			continue
		}
		for _, b := range reqs {
			if b == a || !b.arrived || b.answers == 0 || a.addr/64 != b.addr/64 {
				continue
			}
			// a arrived first, b was answered first (a later or not yet)
			if a.arrSeq < b.arrSeq && (a.answers == 0 || a.rspSeq > b.rspSeq) && (a.isWrite || b.isWrite) {
				inverted = true
			}
		}
	}
	if !inverted {
		return "no-same-bank-overtake"
	}
	switch {
	case c.Width > 1:
		return "same-bank-overtake,pipeline-width>1"
	case c.RowLog2 > 0 && c.RowMissDelay > 0:
		return "same-bank-overtake,width=1,row-tracking"
	default:
		return "same-bank-overtake,width=1,no-row-tracking"
	}
}

func describeReqs(reqs []*reqInfo, n int) []string {
	var out []string
	for i, r := range reqs {
		if i >= n {
			break
		}
		k := "R"
		if r.isWrite {
			k = "W"
		}
		out = append(out, fmt.Sprintf("#%d %s addr=%#x size=%d masked=%v", r.idx, k, r.addr, r.size, r.mask != nil))
	}
	return out
}

func describe(byID map[string]*reqInfo) func(m sim.Msg) string {
	return func(m sim.Msg) string {
		switch x := m.(type) {
		case *mem.ReadReq:
			return fmt.Sprintf("ReadReq #%d addr=%#x size=%d", byID[x.ID].idx, x.Address, x.AccessByteSize)
		case *mem.WriteReq:
			return fmt.Sprintf("WriteReq #%d addr=%#x size=%d masked=%v", byID[x.ID].idx, x.Address, len(x.Data), x.DirtyMask != nil)
		case *mem.DataReadyRsp:
			if ri := byID[x.RespondTo]; ri != nil {
				return fmt.Sprintf("DataReady for #%d", ri.idx)
			}
			return "DataReady"
		case *mem.WriteDoneRsp:
			if ri := byID[x.RespondTo]; ri != nil {
				return fmt.Sprintf("WriteDone for #%d", ri.idx)
			}
			return "WriteDone"
		}
		return fmt.Sprintf("%T", m)
	}
}
