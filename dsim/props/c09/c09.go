// Package c09 decides property C09 (work-groups are dispatched exactly once
// within compute-unit resources) by simulating the real cp.CommandProcessor
// with its real dispatchers, placement algorithms and resource accounting
// against stub compute units with finite resources and a scripted driver.
package c09

import (
	"fmt"

	"github.com/sarchlab/akita/v4/sim"
	"github.com/sarchlab/mgpusim/v4/amd/insts"
	"github.com/sarchlab/mgpusim/v4/amd/kernels"
	"github.com/sarchlab/mgpusim/v4/amd/protocol"
	"github.com/sarchlab/mgpusim/v4/amd/timing/cp"

	"verif/dsim/choice"
	"verif/dsim/harness"
	"verif/dsim/monitor"
	"verif/dsim/rig"
	"verif/dsim/stubs"
)

// H is the harness. With Filters set, every launch carries a work-group
// filter (the way the driver splits a unified multi-GPU launch into one
// request per GPU): this mode serves property C08.
type H struct {
	Filters bool
	Prop    string
}

// ID implements harness.Harness.
func (h H) ID() string {
	if h.Prop != "" {
		return h.Prop
	}
	return "C09"
}

// Version implements harness.Harness.
func (h H) Version() string {
	if h.Filters {
		return "c09-v5-filters"
	}
	return "c09-v5"
}

// Runs implements harness.Harness.
func (H) Runs(tier string) int {
	if tier == "thorough" {
		return 400000
	}
	return 16000
}

// Meta implements harness.Harness.
func (H) Meta() harness.Meta {
	return harness.Meta{
		Rule: "each run = one seeded (configuration, launch sequence, completion order/delays, fault sequence): real cp.CommandProcessor with 1-8 real dispatchers and a drawn placement algorithm " +
			"(round-robin as shipped; greedy and partition through the verif hook), one shared real CUResourcePool, 1-8 stub CUs declaring finite drawn resources (1-4 SIMDs, 1-10 wavefront slots each, VGPR/SGPR/LDS sizes, sometimes exactly one work-group fits), " +
			"1-6 possibly overlapping LaunchKernelReq with drawn 1-3-D grids, work-group shapes and SGPR/VGPR/LDS demands (synthetic code-object headers), stub CUs completing work-groups after drawn delays in drawn order, one id per message or batched per kernel, " +
			"delayed/stalled links, same-time events permuted; optionally a final probe kernel whose single work-group needs a whole CU. " +
			"non-trivial = a fault fired or a tie was reordered and at least one kernel completed; distinct = distinct (configuration digest, port-event-order digest)",
		RealComponents: []string{"amd/timing/cp.CommandProcessor", "cp/internal/dispatching.DispatcherImpl + roundRobin/greedy/partition algorithms", "cp/internal/resource.CUResourceImpl + CUResourcePoolImpl + resource masks", "amd/kernels.GridBuilder", "akita sim.Port"},
		StubComponents: []string{"driver-side requester (scripted)", "compute units (finite declared resources, drawn completion delays/order)", "engine (SeededEngine)", "connections (FaultyConn)"},
		Assumptions: []string{
			"stub CUs report completions one work-group per message (as the timing CU does), batch work-groups of one kernel, or batch work-groups of different kernels in one message (as the emulation CU does)",
			"every generated work-group fits into an empty CU of the run (a kernel that can never be placed is not a valid launch)",
			"links are reliable and FIFO per pair",
		},
		FaultKinds:     []string{"tie_reorder", "delay", "cross_reorder", "backpressure", "slow_lower_level", "ooo_response", "config_swarm"},
		ExpectedProbes: []string{"dispatcher_waited_for_resources", "overlapping_kernels", "cu_exactly_one_wg_fits", "batched_completion", "all_dispatchers_busy", "alg_greedy", "alg_partition", "alg_round_robin", "probe_kernel_ran", "cross_kernel_batched_completion", "launch_with_workgroup_filter", "filter_selects_no_workgroup"},
		ShrinkBudget:   400,
	}
}

// ---- stub compute unit ----

type stubCU struct {
	*sim.TickingComponent
	port sim.Port
	ch   *choice.Source
	freq sim.Freq

	wfPool []int
	vregs  []int
	sregs  int
	lds    int

	maxDelay int
	batch    bool
	// crossKernel: batch finished work-groups of different kernels into one
	// message, as the emulation compute unit does
	crossKernel  bool
	crossBatched uint64

	resident []*residentWG
	// statistics
	batched uint64
}

type residentWG struct {
	req     *protocol.MapWGReq
	doneAt  uint64
	arrived uint64
}

func (c *stubCU) DispatchingPort() sim.RemotePort { return c.port.AsRemote() }
func (c *stubCU) ControlPort() sim.RemotePort     { return c.port.AsRemote() }
func (c *stubCU) WfPoolSizes() []int              { return append([]int{}, c.wfPool...) }
func (c *stubCU) VRegCounts() []int               { return append([]int{}, c.vregs...) }
func (c *stubCU) SRegCount() int                  { return c.sregs }
func (c *stubCU) LDSBytes() int                   { return c.lds }

func (c *stubCU) Tick() bool {
	now := c.freq.Cycle(c.CurrentTime())
	progress := false
	for {
		m := c.port.RetrieveIncoming()
		if m == nil {
			break
		}
		req, ok := m.(*protocol.MapWGReq)
		if !ok {
			harness.Bug("stub CU got %T", m)
		}
		d := uint64(1 + c.ch.Intn(c.maxDelay, "cu.delay"))
		c.resident = append(c.resident, &residentWG{req: req, doneAt: now + d, arrived: now})
		progress = true
	}
	// finished work-groups, in drawn order
	for {
		var ready []int
		for i, w := range c.resident {
			if w.doneAt <= now {
				ready = append(ready, i)
			}
		}
		if len(ready) == 0 || !c.port.CanSend() {
			break
		}
		pick := ready[c.ch.Intn(len(ready), "cu.order")]
		first := c.resident[pick]
		ids := []string{first.req.ID}
		drop := map[int]bool{pick: true}
		if c.batch {
			// also report other finished work-groups of the same kernel
			for _, i := range ready {
				sameKernel := c.resident[i].req.WorkGroup.Packet == first.req.WorkGroup.Packet
				if i != pick && (sameKernel || c.crossKernel) &&
					c.resident[i].req.Src == first.req.Src && c.ch.Bool(1, 2, "cu.batch?") {
					if !sameKernel {
						c.crossBatched++
					}
					ids = append(ids, c.resident[i].req.ID)
					drop[i] = true
				}
			}
		}
		msg := protocol.WGCompletionMsgBuilder{}.WithSrc(c.port.AsRemote()).WithDst(first.req.Src).WithRspTo(ids).Build()
		if err := c.port.Send(msg); err != nil {
			break
		}
		if len(ids) > 1 {
			c.batched++
		}
		var keep []*residentWG
		for i, w := range c.resident {
			if !drop[i] {
				keep = append(keep, w)
			}
		}
		c.resident = keep
		progress = true
	}
	if len(c.resident) > 0 {
		return true
	}
	return progress
}

// ---- harness ----

type cuCfg struct {
	SIMDs    int
	WfSlots  []int
	VRegs    []int // registers per SIMD (all 64 lanes)
	SRegs    int
	LDS      int
	MaxDelay int
	Batch    bool
	Cross    bool
}

type kernelCfg struct {
	Grid    [3]int
	WG      [3]int
	SGPR    int
	VGPR    int
	LDS     int
	At      uint64
	IsProbe bool
	// work-group filter: flattened work-group ids [FilterLo, FilterHi); -1 = none
	FilterLo, FilterHi int
}

type cfg struct {
	Alg         string
	Dispatchers int
	// CUPortBuf > 0: capacity of the command processor's CU-facing port (hook cp.VerifCUPortBuf);
	// 0 = the shipped 4096, which no workload fills
	CUPortBuf int
	CUs         []cuCfg
	Kernels     []kernelCfg
}

type kernelState struct {
	idx       int
	cfg       kernelCfg
	req       *protocol.LaunchKernelReq
	packet    *kernels.HsaKernelDispatchPacket
	co        *insts.KernelCodeObject
	numWG     int
	mapped    map[[3]int]int // coordinate -> times mapped
	mappedN   int
	completed int
	responses int
	sent      bool
}

type interval struct{ lo, hi int }

func overlaps(a, b interval) bool { return a.lo < b.hi && b.lo < a.hi }

type cuModel struct {
	wfUsed []int
	vgpr   [][]interval // per SIMD
	sgpr   []interval
	lds    []interval
}

type wgPlacement struct {
	k    *kernelState
	cu   int
	simd []int
	vgpr []interval
	sgpr []interval
	lds  interval
	done bool
}

func ceilDiv(a, b int) int { return (a + b - 1) / b }

// Run implements harness.Harness.
func (h H) Run(ch *choice.Source, opt harness.Options) harness.Result {
	r := rig.New(ch, 2_000_000)
	c := cfg{Alg: []string{"round-robin", "greedy", "partition"}[ch.Pick([]int{2, 1, 1}, "alg")], Dispatchers: 1 + ch.Intn(8, "dispatchers")}
	if ch.Bool(1, 2, "cuport.small") {
		c.CUPortBuf = 1 + ch.Intn(6, "cuport.buf")
	}
	nCU := 1 + ch.Intn(8, "cus")
	if ch.Bool(1, 2, "fewcus") {
		nCU = 1 + ch.Intn(3, "cus.few")
	}
	for i := 0; i < nCU; i++ {
		cu := cuCfg{SIMDs: 1 + ch.Intn(4, "simds"), MaxDelay: 1 + ch.Intn(60, "cu.maxdelay"), Batch: ch.Bool(1, 3, "cu.batch")}
		cu.Cross = cu.Batch && ch.Bool(1, 2, "cu.cross")
		for s := 0; s < cu.SIMDs; s++ {
			cu.WfSlots = append(cu.WfSlots, 1+ch.Intn(10, "wfslots"))
			// VGPR file: 64 lanes x (16..256 registers), multiple of 4 registers per lane
			cu.VRegs = append(cu.VRegs, 64*4*(4+ch.Intn(61, "vregs")))
		}
		cu.SRegs = 16 * (4 + ch.Intn(60, "sregs"))
		cu.LDS = 256 * (4 + ch.Intn(252, "lds"))
		c.CUs = append(c.CUs, cu)
	}
	// the smallest CU decides what a work-group may demand so that it fits everywhere?
	// No: a work-group only has to fit into at least one empty CU; we bound by the largest.
	maxWf, maxSlotsPerSIMD := 0, 0
	var big cuCfg
	for _, cu := range c.CUs {
		total := 0
		for _, s := range cu.WfSlots {
			total += s
			if s > maxSlotsPerSIMD {
				maxSlotsPerSIMD = s
			}
		}
		if total > maxWf {
			maxWf = total
			big = cu
		}
	}
	// does a work-group fit into an empty CU? (conservative model, so that an
	// impossible launch is never generated)
	fitsEmpty := func(kc kernelCfg, cu cuCfg) bool {
		wfCount := ceilDiv(kc.WG[0]*kc.WG[1]*kc.WG[2], 64)
		if ceilDiv(kc.SGPR, 16)*wfCount > cu.SRegs/16 {
			return false
		}
		if ceilDiv(kc.LDS, 256) > cu.LDS/256 {
			return false
		}
		// wavefronts are spread over SIMDs; conservative: every SIMD must be able
		// to take ceil(wfCount/SIMDs) wavefronts
		per := ceilDiv(wfCount, cu.SIMDs)
		for s := 0; s < cu.SIMDs; s++ {
			if cu.WfSlots[s] < per {
				return false
			}
			if ceilDiv(kc.VGPR, 4)*per > cu.VRegs[s]/64/4 {
				return false
			}
		}
		return true
	}
	// with the partition algorithm a work-group is tied to CUs by position: it
	// must fit into every CU; otherwise into at least one
	admissible := func(kc kernelCfg) bool {
		some, all := false, true
		for _, cu := range c.CUs {
			if fitsEmpty(kc, cu) {
				some = true
			} else {
				all = false
			}
		}
		if c.Alg == "partition" {
			return all
		}
		return some
	}
	_ = maxSlotsPerSIMD
	probes := map[string]uint64{}
	nK := 1 + ch.Intn(6, "kernels")
	at := uint64(0)
	for k := 0; k < nK; k++ {
		var kc kernelCfg
		ok := false
		for attempt := 1; attempt <= 6 && !ok; attempt++ {
			kc = kernelCfg{}
			dims := 1 + ch.Intn(3, "dims")
			kc.Grid = [3]int{1, 1, 1}
			kc.WG = [3]int{1, 1, 1}
			wfs := 1 + ch.Intn(max(1, min(16, maxWf)/attempt), "wg.wfs")
			items := wfs*64 - ch.Intn(64, "wg.partial")
			switch dims {
			case 1:
				kc.WG[0] = items
			case 2:
				kc.WG[1] = 1 + ch.Intn(4, "wg.y")
				kc.WG[0] = max(1, items/kc.WG[1])
			case 3:
				kc.WG[1] = 1 + ch.Intn(3, "wg.y")
				kc.WG[2] = 1 + ch.Intn(3, "wg.z")
				kc.WG[0] = max(1, items/(kc.WG[1]*kc.WG[2]))
			}
			for d := 0; d < dims; d++ {
				nwg := 1 + ch.Intn(5, "grid.wgs")
				kc.Grid[d] = kc.WG[d]*nwg - ch.Intn(kc.WG[d], "grid.partial")
				if kc.Grid[d] < 1 {
					kc.Grid[d] = 1
				}
			}
			kc.VGPR = 1 + ch.Intn(max(1, 128/attempt), "vgpr")
			if ch.Bool(1, 2, "vgpr.small") {
				kc.VGPR = 1 + ch.Intn(24, "vgpr.s")
			}
			kc.SGPR = 1 + ch.Intn(max(1, 102/attempt), "sgpr")
			kc.LDS = 0
			if ch.Bool(1, 2, "lds?") {
				kc.LDS = ch.Intn(big.LDS/attempt+1, "lds")
				if ch.Bool(1, 2, "lds.small") {
					kc.LDS = ch.Intn(min(big.LDS, 4096)+1, "lds.s")
				}
			}
			ok = admissible(kc)
		}
		if !ok {
			// last resort: the smallest possible work-group
			kc.VGPR, kc.SGPR, kc.LDS = 1, 1, 0
			kc.WG = [3]int{min(64, kc.WG[0]), 1, 1}
			kc.Grid = [3]int{kc.Grid[0], 1, 1}
			probes["fallback_minimal_kernel"]++
		}
		at += uint64(ch.Intn(40, "kernel.gap"))
		if ch.Bool(1, 3, "kernel.same") {
			at -= at % 2
		}
		kc.At = at
		kc.FilterLo, kc.FilterHi = -1, -1
		total := ceilDiv(kc.Grid[0], kc.WG[0]) * ceilDiv(kc.Grid[1], kc.WG[1]) * ceilDiv(kc.Grid[2], kc.WG[2])
		if (h.Filters || ch.Bool(1, 4, "filter?")) && total > 1 {
			// split the flattened work-group space into 2-4 consecutive ranges
			// and launch one request per range, as the driver does for a
			// unified multi-GPU device
			parts := 2 + ch.Intn(3, "filter.parts")
			per := ceilDiv(total, parts)
			for part := 0; part < parts; part++ {
				k2 := kc
				k2.FilterLo, k2.FilterHi = part*per, min(total, (part+1)*per)
				if part == parts-1 && ch.Bool(1, 3, "filter.beyond") {
					k2.FilterHi = (part+1)*per + 5 // the driver's last range may reach beyond the grid
				}
				if k2.FilterLo >= total {
					k2.FilterLo, k2.FilterHi = total, total+3 // an empty share: zero work-groups
				}
				k2.At = at + uint64(part)
				c.Kernels = append(c.Kernels, k2)
			}
			continue
		}
		c.Kernels = append(c.Kernels, kc)
	}
	r.Mix("cfg", c)

	probes["alg_"+map[string]string{"round-robin": "round_robin", "greedy": "greedy", "partition": "partition"}[c.Alg]] = 1

	// ---- build ----
	driver := r.Requester("Driver", 8+ch.Intn(8, "drv.inbuf"), 8+ch.Intn(8, "drv.outbuf"))
	driver.SendPerCycle = 4
	b := cp.MakeBuilder().WithEngine(r.Eng).WithFreq(r.Freq)
	var cus []*stubCU
	for i, cc := range c.CUs {
		cu := &stubCU{ch: ch, freq: r.Freq, wfPool: cc.WfSlots, vregs: cc.VRegs, sregs: cc.SRegs, lds: cc.LDS, maxDelay: cc.MaxDelay, batch: cc.Batch, crossKernel: cc.Cross}
		cu.TickingComponent = sim.NewTickingComponent(fmt.Sprintf("CU[%d]", i), r.Eng, r.Freq, cu)
		cu.port = sim.NewPort(cu, 1+ch.Intn(8, "cu.inbuf"), 1+ch.Intn(8, "cu.outbuf"), fmt.Sprintf("CU[%d].Port", i))
		cus = append(cus, cu)
		b = b.WithCU(cu)
	}
	cp.VerifCUPortBuf = c.CUPortBuf
	proc := cp.VerifBuild(b, "CP", c.Alg, c.Dispatchers)
	cp.VerifCUPortBuf = 0
	if c.CUPortBuf > 0 {
		probes["small_cu_facing_port"] = 1
	}
	cuPorts := []sim.Port{proc.ToCUs}
	cuIndex := map[sim.RemotePort]int{}
	for i, cu := range cus {
		cuPorts = append(cuPorts, cu.port)
		cuIndex[cu.port.AsRemote()] = i
	}
	r.Conn("ConnCU", cuPorts...)
	r.Conn("ConnDriver", proc.ToDriver, driver.Port)
	r.Rec.Attach(proc.ToCUs, "cus")
	r.Rec.Attach(proc.ToDriver, "driver")

	// ---- workload ----
	var ks []*kernelState
	byReqID := map[string]*kernelState{}
	byPacket := map[*kernels.HsaKernelDispatchPacket]*kernelState{}
	mk := func(kc kernelCfg, idx int) *kernelState {
		k := &kernelState{idx: idx, cfg: kc, mapped: map[[3]int]int{}}
		k.co = &insts.KernelCodeObject{KernelCodeObjectMeta: &insts.KernelCodeObjectMeta{}}
		k.co.WFSgprCount = uint16(kc.SGPR)
		k.co.WIVgprCount = uint16(kc.VGPR)
		k.co.GroupSegmentByteSize = uint32(kc.LDS)
		k.packet = &kernels.HsaKernelDispatchPacket{
			WorkgroupSizeX: uint16(kc.WG[0]), WorkgroupSizeY: uint16(kc.WG[1]), WorkgroupSizeZ: uint16(kc.WG[2]),
			GridSizeX: uint32(kc.Grid[0]), GridSizeY: uint32(kc.Grid[1]), GridSizeZ: uint32(kc.Grid[2]),
		}
		k.numWG = ceilDiv(kc.Grid[0], kc.WG[0]) * ceilDiv(kc.Grid[1], kc.WG[1]) * ceilDiv(kc.Grid[2], kc.WG[2])
		k.req = protocol.NewLaunchKernelReq(driver.Port, proc.ToDriver)
		if kc.FilterLo >= 0 {
			total := k.numWG
			lo, hi := kc.FilterLo, kc.FilterHi
			k.numWG = max(0, min(hi, total)-min(lo, total))
			nx, ny := ceilDiv(kc.Grid[0], kc.WG[0]), ceilDiv(kc.Grid[1], kc.WG[1])
			k.req.WGFilter = func(_ *kernels.HsaKernelDispatchPacket, wg *kernels.WorkGroup) bool {
				flat := wg.IDZ*nx*ny + wg.IDY*nx + wg.IDX
				return flat >= lo && flat < hi
			}
			probes["launch_with_workgroup_filter"]++
			if k.numWG == 0 {
				probes["filter_selects_no_workgroup"]++
			}
		}
		k.req.PID = 1
		k.req.Packet = k.packet
		k.req.CodeObject = k.co
		k.req.PacketAddress = 0x1000 * uint64(idx+1)
		byReqID[k.req.ID] = k
		byPacket[k.packet] = k
		return k
	}
	for i, kc := range c.Kernels {
		k := mk(kc, i)
		ks = append(ks, k)
		kk := k
		driver.Add(stubs.ScriptItem{NotBefore: kc.At, Msg: k.req, OnSent: func(sim.Msg) { kk.sent = true }})
	}
	// final probe kernel: one work-group that needs (nearly) a whole CU; it is
	// launched only after every other kernel has been answered, so it can be
	// placed only if every resource was returned.
	allAnswered := func() bool {
		for _, k := range ks {
			if !k.cfg.IsProbe && k.responses == 0 {
				return false
			}
		}
		return true
	}
	if ch.Bool(1, 2, "probe") {
		// pick a CU, demand all its wavefront slots (bounded by 16) and all of its LDS
		pc := c.CUs[ch.Intn(len(c.CUs), "probe.cu")]
		if c.Alg == "partition" {
			pc = c.CUs[0] // a 1-work-group kernel lands in partition 0
		}
		slots := 0
		minSlots := pc.WfSlots[0]
		for _, s := range pc.WfSlots {
			slots += s
			if s < minSlots {
				minSlots = s
			}
		}
		wfs := min(16, minSlots*pc.SIMDs)
		minV := pc.VRegs[0]
		for _, v := range pc.VRegs {
			if v < minV {
				minV = v
			}
		}
		per := ceilDiv(wfs, pc.SIMDs)
		kc := kernelCfg{Grid: [3]int{wfs * 64, 1, 1}, WG: [3]int{wfs * 64, 1, 1}, IsProbe: true}
		kc.VGPR = max(1, (minV/64/4/per)*4)
		kc.SGPR = max(1, min(102, (pc.SRegs/16/wfs)*16))
		kc.LDS = pc.LDS
		fits := fitsEmpty(kc, pc)
		if c.Alg != "partition" {
			// the probe must fit the chosen CU; other CUs may or may not take it
		}
		if fits {
			k := mk(kc, len(ks))
			ks = append(ks, k)
			kk := k
			driver.Add(stubs.ScriptItem{Msg: k.req, Gate: allAnswered, OnSent: func(sim.Msg) { kk.sent = true }})
			c.Kernels = append(c.Kernels, kc)
		}
	}
	driver.OnRecv = func(sim.Msg) { driver.TickLater() }

	// ---- oracle ----
	var viol *harness.Result
	fail := func(rule, sig, format string, a ...any) {
		if viol == nil {
			viol = &harness.Result{Rule: rule, Signature: sig, Detail: fmt.Sprintf(format, a...)}
		}
	}
	r.Abort = func() bool { return viol != nil }
	models := make([]*cuModel, len(cus))
	for i, cc := range c.CUs {
		models[i] = &cuModel{wfUsed: make([]int, cc.SIMDs), vgpr: make([][]interval, cc.SIMDs)}
	}
	placements := map[string]*wgPlacement{} // MapWGReq id -> placement
	activeKernels := 0
	completedKernels := 0
	lastMapCycle := uint64(0)
	pendingSince := map[*kernelState]uint64{}

	for i, cc := range c.CUs {
		// "exactly one work-group fits" probe: some kernel for which this CU holds one but not two
		for _, kc := range c.Kernels {
			wf := ceilDiv(kc.WG[0]*kc.WG[1]*kc.WG[2], 64)
			total := 0
			for _, s := range cc.WfSlots {
				total += s
			}
			if fitsEmpty(kc, cc) && (2*wf > total || 2*ceilDiv(kc.LDS, 256) > cc.LDS/256) {
				probes["cu_exactly_one_wg_fits"]++
				_ = i
				break
			}
		}
	}

	r.Rec.OnEvent = func(e *monitor.Event) {
		switch e.Port {
		case "driver":
			switch e.Kind {
			case monitor.RetrieveIn:
				if k := byReqID[e.Msg.Meta().ID]; k != nil {
					activeKernels++
					if activeKernels > 1 {
						probes["overlapping_kernels"]++
					}
					if activeKernels >= c.Dispatchers {
						probes["all_dispatchers_busy"]++
					}
					pendingSince[k] = r.Cycle()
				}
			case monitor.Send:
				rsp, ok := e.Msg.(*protocol.LaunchKernelRsp)
				if !ok {
					fail("R4", "driver-port-unexpected-message", "%T sent on the driver-facing port", e.Msg)
					return
				}
				k := byReqID[rsp.RspTo]
				if k == nil {
					fail("R4", "response-unknown-id", "LaunchKernelRsp carries id %q of no launch request", rsp.RspTo)
					return
				}
				k.responses++
				activeKernels--
				if k.responses > 1 {
					fail("R4", "response-twice", "kernel %d answered %d times", k.idx, k.responses)
					return
				}
				if e.Msg.Meta().Dst != driver.Port.AsRemote() {
					fail("R4", "response-wrong-destination", "kernel %d response addressed to %s", k.idx, e.Msg.Meta().Dst)
				}
				if k.completed < k.numWG || k.mappedN < k.numWG {
					fail("R4", "response-early", "kernel %d answered with %d of %d work-groups mapped and %d completed", k.idx, k.mappedN, k.numWG, k.completed)
					return
				}
				completedKernels++
				if k.cfg.IsProbe {
					probes["probe_kernel_ran"]++
				}
			}
		case "cus":
			switch e.Kind {
			case monitor.Send:
				req, ok := e.Msg.(*protocol.MapWGReq)
				if !ok {
					fail("R1", "cu-port-unexpected-message", "%T sent on the CU-facing port", e.Msg)
					return
				}
				wg := req.WorkGroup
				k := byPacket[wg.Packet]
				if k == nil {
					fail("R1", "map-unknown-kernel", "MapWGReq for a work-group of no launched kernel")
					return
				}
				if k.responses > 0 {
					fail("R1", "map-after-response", "kernel %d: work-group mapped after the kernel was answered", k.idx)
					return
				}
				coord := [3]int{wg.IDX, wg.IDY, wg.IDZ}
				nx, ny, nz := ceilDiv(k.cfg.Grid[0], k.cfg.WG[0]), ceilDiv(k.cfg.Grid[1], k.cfg.WG[1]), ceilDiv(k.cfg.Grid[2], k.cfg.WG[2])
				if wg.IDX < 0 || wg.IDX >= nx || wg.IDY < 0 || wg.IDY >= ny || wg.IDZ < 0 || wg.IDZ >= nz {
					fail("R1", "map-outside-grid", "kernel %d: work-group (%d,%d,%d) outside the %dx%dx%d work-group grid", k.idx, wg.IDX, wg.IDY, wg.IDZ, nx, ny, nz)
					return
				}
				if k.cfg.FilterLo >= 0 {
					flat := wg.IDZ*nx*ny + wg.IDY*nx + wg.IDX
					if flat < k.cfg.FilterLo || flat >= k.cfg.FilterHi {
						fail("R1", "mapped-outside-filter", "kernel %d: work-group (%d,%d,%d) (flattened %d) mapped although the filter selects [%d,%d)", k.idx, wg.IDX, wg.IDY, wg.IDZ, flat, k.cfg.FilterLo, k.cfg.FilterHi)
						return
					}
				}
				k.mapped[coord]++
				k.mappedN++
				if k.mapped[coord] > 1 {
					fail("R1", "mapped-twice", "kernel %d: work-group (%d,%d,%d) mapped %d times", k.idx, wg.IDX, wg.IDY, wg.IDZ, k.mapped[coord])
					return
				}
				ci, ok := cuIndex[e.Msg.Meta().Dst]
				if !ok {
					fail("R2", "map-to-unknown-cu", "kernel %d: MapWGReq addressed to %s", k.idx, e.Msg.Meta().Dst)
					return
				}
				if r.Cycle() > lastMapCycle+1 && pendingSince[k] != 0 && k.mappedN > 1 {
					probes["dispatcher_waited_for_resources"]++
				}
				lastMapCycle = r.Cycle()
				// ---- resource model ----
				cc := c.CUs[ci]
				m := models[ci]
				pl := &wgPlacement{k: k, cu: ci}
				if len(req.Wavefronts) != len(wg.Wavefronts) {
					fail("R2", "wavefront-count", "kernel %d: MapWGReq places %d wavefronts, the work-group has %d", k.idx, len(req.Wavefronts), len(wg.Wavefronts))
					return
				}
				pl.lds = interval{-1, -1}
				for wi, loc := range req.Wavefronts {
					if loc.SIMDID < 0 || loc.SIMDID >= cc.SIMDs {
						fail("R2", "simd-out-of-range", "kernel %d: wavefront %d placed on SIMD %d of a CU with %d SIMDs", k.idx, wi, loc.SIMDID, cc.SIMDs)
						return
					}
					v := interval{loc.VGPROffset, loc.VGPROffset + k.cfg.VGPR*4}
					if v.lo < 0 || v.hi > cc.VRegs[loc.SIMDID]/64*4 {
						fail("R2", "vgpr-beyond-capacity", "kernel %d: VGPR bytes [%d,%d) per lane beyond the SIMD's %d", k.idx, v.lo, v.hi, cc.VRegs[loc.SIMDID]/64*4)
						return
					}
					for _, o := range append(append([]interval{}, m.vgpr[loc.SIMDID]...), filterSIMD(pl, loc.SIMDID)...) {
						if overlaps(v, o) {
							fail("R2", "vgpr-overlap", "kernel %d: VGPR region [%d,%d) on SIMD %d of CU %d overlaps a resident wavefront's [%d,%d)", k.idx, v.lo, v.hi, loc.SIMDID, ci, o.lo, o.hi)
							return
						}
					}
					s := interval{loc.SGPROffset, loc.SGPROffset + k.cfg.SGPR*4}
					if s.lo < 0 || s.hi > cc.SRegs*4 {
						fail("R2", "sgpr-beyond-capacity", "kernel %d: SGPR bytes [%d,%d) beyond the CU's %d", k.idx, s.lo, s.hi, cc.SRegs*4)
						return
					}
					for _, o := range append(append([]interval{}, m.sgpr...), pl.sgpr...) {
						if overlaps(s, o) {
							fail("R2", "sgpr-overlap", "kernel %d: SGPR region [%d,%d) on CU %d overlaps a resident wavefront's [%d,%d)", k.idx, s.lo, s.hi, ci, o.lo, o.hi)
							return
						}
					}
					l := interval{loc.LDSOffset, loc.LDSOffset + k.cfg.LDS}
					if pl.lds.lo >= 0 && l != pl.lds {
						fail("R2", "lds-differs-within-wg", "kernel %d: wavefronts of one work-group got different LDS regions", k.idx)
						return
					}
					pl.lds = l
					pl.simd = append(pl.simd, loc.SIMDID)
					pl.vgpr = append(pl.vgpr, v)
					pl.sgpr = append(pl.sgpr, s)
				}
				if k.cfg.LDS > 0 {
					if pl.lds.lo < 0 || pl.lds.hi > cc.LDS {
						fail("R2", "lds-beyond-capacity", "kernel %d: LDS bytes [%d,%d) beyond the CU's %d", k.idx, pl.lds.lo, pl.lds.hi, cc.LDS)
						return
					}
					for _, o := range m.lds {
						if overlaps(pl.lds, o) {
							fail("R2", "lds-overlap", "kernel %d: LDS region [%d,%d) on CU %d overlaps a resident work-group's [%d,%d)", k.idx, pl.lds.lo, pl.lds.hi, ci, o.lo, o.hi)
							return
						}
					}
				}
				// commit to the model
				for wi := range pl.simd {
					m.wfUsed[pl.simd[wi]]++
					if m.wfUsed[pl.simd[wi]] > cc.WfSlots[pl.simd[wi]] {
						fail("R2", "wavefront-slots-exceeded", "kernel %d: SIMD %d of CU %d holds %d wavefronts, it has %d slots", k.idx, pl.simd[wi], ci, m.wfUsed[pl.simd[wi]], cc.WfSlots[pl.simd[wi]])
						return
					}
					m.vgpr[pl.simd[wi]] = append(m.vgpr[pl.simd[wi]], pl.vgpr[wi])
					m.sgpr = append(m.sgpr, pl.sgpr[wi])
				}
				if k.cfg.LDS > 0 {
					m.lds = append(m.lds, pl.lds)
				}
				placements[req.ID] = pl
			case monitor.Recvd:
				msg, ok := e.Msg.(*protocol.WGCompletionMsg)
				if !ok {
					return
				}
				if len(msg.RspTo) > 1 {
					probes["batched_completion"]++
				}
				for _, id := range msg.RspTo {
					pl := placements[id]
					if pl == nil || pl.done {
						harness.Bug("stub CU completed an unknown or finished work-group")
					}
					pl.done = true
					pl.k.completed++
					// the work-group has left the CU: its resources are free in the model
					m := models[pl.cu]
					for wi := range pl.simd {
						m.wfUsed[pl.simd[wi]]--
						m.vgpr[pl.simd[wi]] = removeInterval(m.vgpr[pl.simd[wi]], pl.vgpr[wi])
						m.sgpr = removeInterval(m.sgpr, pl.sgpr[wi])
					}
					if pl.k.cfg.LDS > 0 {
						m.lds = removeInterval(m.lds, pl.lds)
					}
				}
			}
		}
	}

	opt.Describe(map[string]any{"config": c, "swarm": r.Swarm})
	end := r.Run()

	res := harness.Result{
		ConfigDigest: r.ConfigDigest(), OrderDigest: r.Rec.Digest(),
		Events: r.Eng.Stats.Events, SimTime: float64(r.Eng.CurrentTime()),
		Faults: r.Faults(), Probes: probes,
	}
	res.Faults["config_swarm"] = 1
	for _, cu := range cus {
		probes["cross_kernel_batched_completion"] += cu.crossBatched
	}
	res.Nontrivial = rig.AnyFault(r.Faults()) && completedKernels > 0

	if viol == nil {
		if mr := r.Misrouted(); len(mr) > 0 {
			fail("R2", "misrouted", "message to an unknown port: %s", mr[0])
		}
	}
	if viol == nil {
		if end == "event-cap" {
			res.Inconclusive = "event-cap"
		} else {
			for _, k := range ks {
				if !k.sent {
					fail("LIVE", "launch-never-sent", "kernel %d could not be sent; end=%q", k.idx, end)
					break
				}
				if k.responses == 0 {
					sig := "kernel-never-answered"
					if k.cfg.IsProbe {
						// every other kernel was answered; an empty GPU cannot place a
						// work-group that fits an empty CU: resources were not returned
						fail("R3", "resources-not-returned", "probe kernel (one work-group needing a whole CU) could not be placed after all other kernels completed: mapped %d/%d; end=%q", k.mappedN, k.numWG, end)
						break
					}
					fail("LIVE", sig, "kernel %d (%d work-groups; mapped %d, completed %d) never answered; end=%q", k.idx, k.numWG, k.mappedN, k.completed, end)
					break
				}
				if k.mappedN != k.numWG {
					fail("R1", "mapped-count", "kernel %d answered with %d of %d work-groups mapped", k.idx, k.mappedN, k.numWG)
					break
				}
			}
		}
	}
	if viol != nil {
		res.Rule, res.Signature, res.Detail = viol.Rule, viol.Signature, viol.Detail
	}
	if opt.Verbose || res.Failed() {
		res.Sample = map[string]any{"config": c, "swarm": r.Swarm, "kernels_completed": completedKernels, "events": res.Events, "end": end}
	}
	if res.Failed() {
		res.Log = r.Rec.Dump(60, describe(byPacket, byReqID))
	}
	return res
}

func filterSIMD(pl *wgPlacement, simd int) []interval {
	var out []interval
	for i, s := range pl.simd {
		if s == simd {
			out = append(out, pl.vgpr[i])
		}
	}
	return out
}

func removeInterval(s []interval, x interval) []interval {
	for i, v := range s {
		if v == x {
			return append(s[:i:i], s[i+1:]...)
		}
	}
	return s
}

func describe(byPacket map[*kernels.HsaKernelDispatchPacket]*kernelState, byReq map[string]*kernelState) func(sim.Msg) string {
	return func(m sim.Msg) string {
		switch x := m.(type) {
		case *protocol.MapWGReq:
			k := byPacket[x.WorkGroup.Packet]
			ki := -1
			if k != nil {
				ki = k.idx
			}
			return fmt.Sprintf("MapWG kernel=%d wg=(%d,%d,%d) -> %s locs=%v", ki, x.WorkGroup.IDX, x.WorkGroup.IDY, x.WorkGroup.IDZ, x.Dst, locs(x))
		case *protocol.WGCompletionMsg:
			return fmt.Sprintf("WGCompletion n=%d from %s", len(x.RspTo), x.Src)
		case *protocol.LaunchKernelReq:
			if k := byReq[x.ID]; k != nil {
				return fmt.Sprintf("LaunchKernelReq kernel=%d", k.idx)
			}
		case *protocol.LaunchKernelRsp:
			if k := byReq[x.RspTo]; k != nil {
				return fmt.Sprintf("LaunchKernelRsp kernel=%d", k.idx)
			}
		}
		return fmt.Sprintf("%T", m)
	}
}

func locs(x *protocol.MapWGReq) string {
	s := ""
	for _, l := range x.Wavefronts {
		s += fmt.Sprintf("{simd%d v%d s%d l%d}", l.SIMDID, l.VGPROffset, l.SGPROffset, l.LDSOffset)
	}
	return s
}
