// Package c10 decides property C10 (device memory management never aliases
// pages or corrupts mappings) by driving the real driver's public memory API
// with seeded multi-process histories on small device memories, in lock-step
// with a reference model, and checking the structural invariants on the real
// vm.PageTable after every step.
package c10

import (
	"fmt"
	"sort"
	"strings"

	"github.com/sarchlab/akita/v4/mem/vm"
	"github.com/sarchlab/akita/v4/sim"
	"github.com/sarchlab/mgpusim/v4/amd/driver"

	"verif/dsim/choice"
	"verif/dsim/harness"
	"verif/dsim/simengine"
)

// H is the harness.
type H struct{}

// ID implements harness.Harness.
func (H) ID() string { return "C10" }

// Version implements harness.Harness.
func (H) Version() string { return "c10-v2" }

// Runs implements harness.Harness.
func (H) Runs(tier string) int {
	if tier == "thorough" {
		return 200000
	}
	return 8000
}

// Meta implements harness.Harness.
func (H) Meta() harness.Meta {
	return harness.Meta{
		Rule: "each run = one seeded history of 5-60 calls of the public Driver memory API (Init, InitWithExistingPID, SelectGPU, CreateUnifiedGPU, AllocateMemory, AllocateUnifiedMemory, FreeMemory, Remap, Distribute) " +
			"issued by 1-4 contexts (1-3 processes; the interleaving of their calls is the schedule - the allocator serialises calls on its mutex, so call order is the whole schedule) on 1-4 GPUs with 4-48 pages each, " +
			"page size 2^12-2^16 with the default allocator and 2^12 with the buddy allocator (verif hook); injected fault: capacity exhaustion (an allocation the model knows cannot fit must fail with 'out of memory' and ends the history). " +
			"After every call the real vm.PageTable is compared with a reference model. non-trivial = the history freed, remapped or distributed at least once and reused at least one physical page; distinct = distinct (configuration digest, history digest)",
		RealComponents: []string{"amd/driver.Driver public API", "driver/internal.memoryAllocatorImpl", "driver/internal.deviceMemoryStateImpl / deviceBuddyMemoryState", "driver.distributorImpl", "akita vm.PageTable"},
		StubComponents: []string{"history generator", "reference model (maps and counters)", "engine (never run: the memory API is synchronous)"},
		Assumptions: []string{
			"only valid calls are generated: FreeMemory on live buffers of the calling context, Remap/Distribute on page-aligned sub-ranges of live buffers, targets with enough free pages by the model",
			"with the buddy allocator a multi-page Remap may legally fail through fragmentation: such a failure ends the history without a verdict",
			"migration preparation (the remaining operation the property names) is exercised by the C19 driver-handshake harness",
		},
		FaultKinds:     []string{"capacity_exhaustion", "config_swarm"},
		ExpectedProbes: []string{"physical_page_reused", "multi_page_free", "remap", "distribute", "unified_device_alloc", "unified_memory_alloc", "oom_confirmed", "buddy_allocator", "two_contexts_one_pid", "page_size_64k"},
		ShrinkBudget:   400,
	}
}

type cfg struct {
	Log2Page uint64
	GPUs     []int // pages per GPU
	Buddy    bool
	Steps    int
}

type devModel struct {
	id      int
	base    uint64
	pages   int
	live    int // live pages (model)
	unified []int
}

type bufModel struct {
	ptr   uint64
	pages int
	size  uint64
	live  bool
}

type ctxModel struct {
	ctx    *driver.Context
	pid    uint64
	gpu    int
	bufs   []*bufModel
	parent int
}

type pageKey struct {
	pid   uint64
	vaddr uint64
}

type stubPortOwner struct {
	*sim.TickingComponent
}

func (s *stubPortOwner) Tick() bool { return false }

// Run implements harness.Harness.
func (H) Run(ch *choice.Source, opt harness.Options) harness.Result {
	c := cfg{Log2Page: 12 + uint64(ch.Intn(5, "log2page")), Steps: 5 + ch.Intn(56, "steps")}
	c.Buddy = ch.Intn(5, "buddy") == 4
	if c.Buddy {
		c.Log2Page = 12
	}
	nGPU := 1 + ch.Intn(4, "gpus")
	for g := 0; g < nGPU; g++ {
		p := 4 + ch.Intn(45, "gpu.pages")
		if c.Buddy {
			p = 4 << ch.Intn(4, "gpu.pages.pow2") // power of two
		}
		c.GPUs = append(c.GPUs, p)
	}
	pageSize := uint64(1) << c.Log2Page
	probes := map[string]uint64{}
	if c.Buddy {
		probes["buddy_allocator"] = 1
	}
	if c.Log2Page == 16 {
		probes["page_size_64k"] = 1
	}

	driver.VerifUseBuddyAllocator(false) // the CPU device always uses the default allocator here
	eng := simengine.New(simengine.Faithful, ch)
	pt := vm.NewPageTable(c.Log2Page)
	d := driver.MakeBuilder().WithEngine(eng).WithPageTable(pt).WithLog2PageSize(c.Log2Page).Build("Driver")
	driver.VerifUseBuddyAllocator(c.Buddy)
	defer driver.VerifUseBuddyAllocator(false)

	// device model
	devs := []*devModel{{id: 0, base: pageSize, pages: int((4 << 30) / pageSize)}}
	next := pageSize + 4<<30
	owner := &stubPortOwner{}
	owner.TickingComponent = sim.NewTickingComponent("StubCP", eng, 1*sim.GHz, owner)
	for g, p := range c.GPUs {
		port := sim.NewPort(owner, 1, 1, fmt.Sprintf("StubCP.Port%d", g))
		d.RegisterGPU(port, driver.DeviceProperties{CUCount: 4, DRAMSize: uint64(p) * pageSize})
		devs = append(devs, &devModel{id: g + 1, base: next, pages: p})
		next += uint64(p) * pageSize
	}
	opt.Describe(map[string]any{"config": c})

	var viol *harness.Result
	fail := func(rule, sig, format string, a ...any) {
		if viol == nil {
			viol = &harness.Result{Rule: rule, Signature: sig, Detail: fmt.Sprintf(format, a...)}
		}
	}

	// ---- model ----
	var ctxs []*ctxModel
	livePages := map[pageKey]uint64{} // live virtual page -> physical page (as last observed)
	pageDev := map[pageKey]int{}      // live virtual page -> real device it must be on (-1: any GPU of a set)
	pageSet := map[pageKey][]int{}    // allowed devices for unified-device pages
	everUsed := map[uint64]bool{}     // physical pages handed out at least once
	var history []string
	var hdig uint64 = 1469598103934665603
	note := func(s string) {
		history = append(history, s)
		for i := 0; i < len(s); i++ {
			hdig = (hdig ^ uint64(s[i])) * 1099511628211
		}
	}
	realDevOf := func(paddr uint64) int {
		for _, dv := range devs {
			if dv.unified == nil && paddr >= dv.base && paddr < dv.base+uint64(dv.pages)*pageSize {
				return dv.id
			}
		}
		return -1
	}
	freeOn := func(id int) int { return devs[id].pages - devs[id].live }
	mutated := false

	// call runs an API call and converts a panic into a message
	call := func(f func()) (panicMsg string) {
		defer func() {
			if r := recover(); r != nil {
				panicMsg = fmt.Sprint(r)
				if panicMsg == "" {
					panicMsg = "panic"
				}
			}
		}()
		f()
		return ""
	}

	// verify compares the real page table with the model after a step
	verify := func(step string) {
		if viol != nil {
			return
		}
		keys := make([]pageKey, 0, len(livePages))
		for k := range livePages {
			keys = append(keys, k)
		}
		sort.Slice(keys, func(i, j int) bool {
			if keys[i].pid != keys[j].pid {
				return keys[i].pid < keys[j].pid
			}
			return keys[i].vaddr < keys[j].vaddr
		})
		seen := map[uint64]pageKey{}
		for _, k := range keys {
			page, found := pt.Find(vm.PID(k.pid), k.vaddr)
			if !found || !page.Valid {
				fail("R4", "live-page-unmapped", "after %s: live virtual page %#x of process %d is not in the page table", step, k.vaddr, k.pid)
				return
			}
			if page.PAddr%pageSize != 0 {
				fail("R1", "physical-page-misaligned", "after %s: virtual page %#x maps to unaligned physical address %#x", step, k.vaddr, page.PAddr)
				return
			}
			rd := realDevOf(page.PAddr)
			if rd < 0 {
				fail("R3", "page-outside-every-device", "after %s: virtual page %#x maps to physical %#x which lies in no device's memory", step, k.vaddr, page.PAddr)
				return
			}
			if int(page.DeviceID) != rd {
				fail("R3", "recorded-device-differs", "after %s: virtual page %#x: page table records device %d, physical %#x lies in device %d", step, k.vaddr, page.DeviceID, page.PAddr, rd)
				return
			}
			if want := pageDev[k]; want >= 0 && rd != want {
				fail("R3", "page-on-wrong-device", "after %s: virtual page %#x is on device %d, must be on device %d", step, k.vaddr, rd, want)
				return
			}
			if set := pageSet[k]; pageDev[k] < 0 && set != nil {
				ok := false
				for _, s := range set {
					if s == rd {
						ok = true
					}
				}
				if !ok {
					fail("R3", "page-outside-unified-set", "after %s: virtual page %#x is on device %d, not one of %v", step, k.vaddr, rd, set)
					return
				}
			}
			if other, dup := seen[page.PAddr]; dup {
				fail("R1", "physical-page-aliased", "after %s: physical page %#x backs both virtual page %#x (process %d) and %#x (process %d)", step, page.PAddr, other.vaddr, other.pid, k.vaddr, k.pid)
				return
			}
			seen[page.PAddr] = k
			livePages[k] = page.PAddr
		}
	}

	// learn records the pages of a (re)mapped range and checks that pages the
	// step did not touch kept their mapping
	snapshot := func() map[pageKey]uint64 {
		s := make(map[pageKey]uint64, len(livePages))
		for k, v := range livePages {
			s[k] = v
		}
		return s
	}
	unchangedExcept := func(step string, before map[pageKey]uint64, touched map[pageKey]bool) {
		if viol != nil {
			return
		}
		keys := make([]pageKey, 0, len(before))
		for k := range before {
			keys = append(keys, k)
		}
		sort.Slice(keys, func(i, j int) bool {
			if keys[i].pid != keys[j].pid {
				return keys[i].pid < keys[j].pid
			}
			return keys[i].vaddr < keys[j].vaddr
		})
		for _, k := range keys {
			if touched[k] {
				continue
			}
			if _, live := livePages[k]; !live {
				continue
			}
			page, found := pt.Find(vm.PID(k.pid), k.vaddr)
			if !found {
				fail("R4", "unrelated-page-unmapped", "%s unmapped unrelated virtual page %#x of process %d", step, k.vaddr, k.pid)
				return
			}
			if page.PAddr != before[k] {
				fail("R4", "unrelated-mapping-changed", "%s changed the mapping of unrelated virtual page %#x (process %d): %#x -> %#x", step, k.vaddr, k.pid, before[k], page.PAddr)
				return
			}
		}
	}

	newCtx := func(parent int) {
		cm := &ctxModel{gpu: 1, parent: parent}
		if parent < 0 {
			cm.ctx = d.Init()
			note("Init")
		} else {
			cm.ctx = d.InitWithExistingPID(ctxs[parent].ctx)
			note(fmt.Sprintf("InitWithExistingPID(ctx%d)", parent))
			probes["two_contexts_one_pid"]++
		}
		cm.pid = cm.ctx.VerifPID()
		ctxs = append(ctxs, cm)
	}
	newCtx(-1)

	ended := ""
	for step := 0; step < c.Steps && viol == nil && ended == ""; step++ {
		ci := ch.Intn(len(ctxs), "ctx")
		cm := ctxs[ci]
		var liveBufs []*bufModel
		for _, b := range cm.bufs {
			if b.live {
				liveBufs = append(liveBufs, b)
			}
		}
		op := ch.Pick([]int{30, 18, 8, 8, 4, 3, 3, 4, 2}, "op")
		before := snapshot()
		switch op {
		case 0, 8: // AllocateMemory (8: beyond capacity on purpose)
			dv := devs[cm.gpu]
			avail := 0
			var set []int
			if dv.unified != nil {
				for _, g := range dv.unified {
					avail += freeOn(g)
				}
				set = dv.unified
				probes["unified_device_alloc"]++
			} else {
				avail = freeOn(dv.id)
			}
			n := 1 + ch.Intn(6, "alloc.pages")
			if op == 8 {
				if dv.unified != nil || c.Buddy {
					continue
				}
				n = avail + 1 + ch.Intn(3, "oom.extra")
			} else if n > avail {
				if avail == 0 {
					continue
				}
				n = avail
			}
			size := uint64(n)*pageSize - uint64(ch.Intn(int(pageSize), "alloc.slack"))
			var ptr driver.Ptr
			msg := call(func() { ptr = d.AllocateMemory(cm.ctx, size) })
			name := fmt.Sprintf("ctx%d.AllocateMemory(%d bytes = %d pages) on device %d", ci, size, n, cm.gpu)
			note(name)
			if op == 8 {
				if msg == "" {
					fail("R1", "allocation-beyond-capacity-succeeded", "%s succeeded although only %d pages are free", name, avail)
				} else if !strings.Contains(msg, "out of memory") {
					fail("R6", "capacity-exhaustion-crash/"+classify(msg), "%s beyond capacity failed with %q instead of 'out of memory'", name, msg)
				} else {
					probes["oom_confirmed"]++
					ended = "oom-confirmed"
				}
				break
			}
			if msg != "" {
				if c.Buddy && (strings.Contains(msg, "not enough memory") || strings.Contains(msg, "out of memory")) {
					// the buddy allocator wastes the tail of multi-page blocks: its
					// capacity is not the number of free pages, no verdict
					ended = "buddy-fragmentation"
					break
				}
				fail("R6", "crash-on-valid-call/AllocateMemory/"+classify(msg), "%s panicked with %q although the model has %d free pages there", name, msg, avail)
				break
			}
			if uint64(ptr)%pageSize != 0 {
				fail("R2", "pointer-misaligned", "%s returned unaligned pointer %#x", name, uint64(ptr))
				break
			}
			b := &bufModel{ptr: uint64(ptr), pages: n, size: size, live: true}
			for i := 0; i < n; i++ {
				k := pageKey{cm.pid, b.ptr + uint64(i)*pageSize}
				if _, dup := livePages[k]; dup {
					fail("R2", "virtual-range-overlap", "%s returned %#x whose page %#x is already a live page of process %d", name, b.ptr, k.vaddr, cm.pid)
					break
				}
				page, found := pt.Find(vm.PID(cm.pid), k.vaddr)
				if !found {
					fail("R4", "allocated-page-unmapped", "%s: page %#x is not in the page table", name, k.vaddr)
					break
				}
				livePages[k] = page.PAddr
				if dv.unified != nil {
					pageDev[k] = -1
					pageSet[k] = set
				} else {
					pageDev[k] = dv.id
				}
				if rd := realDevOf(page.PAddr); rd >= 0 {
					devs[rd].live++
				}
				if everUsed[page.PAddr] {
					probes["physical_page_reused"]++
				}
				everUsed[page.PAddr] = true
			}
			cm.bufs = append(cm.bufs, b)
		case 1: // FreeMemory
			if len(liveBufs) == 0 {
				continue
			}
			b := liveBufs[ch.Intn(len(liveBufs), "free.buf")]
			name := fmt.Sprintf("ctx%d.FreeMemory(%#x, %d pages)", ci, b.ptr, b.pages)
			note(name)
			msg := call(func() { _ = d.FreeMemory(cm.ctx, driver.Ptr(b.ptr)) })
			if msg != "" {
				fail("R6", "crash-on-valid-call/FreeMemory/"+classify(msg), "%s panicked with %q", name, msg)
				break
			}
			mutated = true
			if b.pages > 1 {
				probes["multi_page_free"]++
			}
			b.live = false
			for i := 0; i < b.pages; i++ {
				k := pageKey{cm.pid, b.ptr + uint64(i)*pageSize}
				if rd := realDevOf(livePages[k]); rd >= 0 {
					devs[rd].live--
				}
				delete(livePages, k)
				delete(pageDev, k)
				delete(pageSet, k)
				if _, found := pt.Find(vm.PID(cm.pid), k.vaddr); found {
					fail("R5", "free-left-page-mapped", "%s: page %d of the buffer (%#x) is still mapped", name, i, k.vaddr)
					break
				}
			}
		case 2: // Remap
			if len(liveBufs) == 0 || len(c.GPUs) < 1 {
				continue
			}
			b := liveBufs[ch.Intn(len(liveBufs), "remap.buf")]
			first := ch.Intn(b.pages, "remap.first")
			n := 1 + ch.Intn(b.pages-first, "remap.n")
			target := 1 + ch.Intn(len(c.GPUs), "remap.dev")
			// pages of the range that already live on the target return there
			need := n
			if need > freeOn(target) {
				continue
			}
			name := fmt.Sprintf("ctx%d.Remap(%#x+%d pages, %d pages, device %d)", ci, b.ptr, first, n, target)
			note(name)
			msg := call(func() { d.Remap(cm.ctx, b.ptr+uint64(first)*pageSize, uint64(n)*pageSize, target) })
			if msg != "" {
				if c.Buddy && (strings.Contains(msg, "not enough memory") || strings.Contains(msg, "out of memory")) {
					ended = "buddy-fragmentation"
					break
				}
				fail("R6", "crash-on-valid-call/Remap/"+classify(msg), "%s panicked with %q although the model has %d free pages on the target", name, msg, freeOn(target))
				break
			}
			mutated = true
			probes["remap"]++
			touched := map[pageKey]bool{}
			for i := first; i < first+n; i++ {
				k := pageKey{cm.pid, b.ptr + uint64(i)*pageSize}
				touched[k] = true
				if rd := realDevOf(livePages[k]); rd >= 0 {
					devs[rd].live-- // the old physical page is no longer mapped: reusable
				}
				page, found := pt.Find(vm.PID(cm.pid), k.vaddr)
				if !found {
					fail("R4", "remapped-page-unmapped", "%s: page %#x vanished from the page table", name, k.vaddr)
					break
				}
				livePages[k] = page.PAddr
				pageDev[k] = target
				delete(pageSet, k)
				if rd := realDevOf(page.PAddr); rd >= 0 {
					devs[rd].live++
				}
				if everUsed[page.PAddr] {
					probes["physical_page_reused"]++
				}
				everUsed[page.PAddr] = true
			}
			unchangedExcept(name, before, touched)
		case 3: // Distribute
			if len(liveBufs) == 0 || len(c.GPUs) < 2 {
				continue
			}
			b := liveBufs[ch.Intn(len(liveBufs), "dist.buf")]
			k := 2 + ch.Intn(len(c.GPUs)-1, "dist.k")
			perm := ch.Perm(len(c.GPUs), "dist.perm")
			var ids []int
			for _, p := range perm[:k] {
				ids = append(ids, p+1)
			}
			// conservative precondition: every target can take the whole buffer
			ok := true
			for _, id := range ids {
				if freeOn(id) < b.pages {
					ok = false
				}
			}
			if !ok {
				continue
			}
			name := fmt.Sprintf("ctx%d.Distribute(%#x, %d pages, GPUs %v)", ci, b.ptr, b.pages, ids)
			note(name)
			msg := call(func() { d.Distribute(cm.ctx, driver.Ptr(b.ptr), uint64(b.pages)*pageSize, ids) })
			if msg != "" {
				if c.Buddy && (strings.Contains(msg, "not enough memory") || strings.Contains(msg, "out of memory")) {
					ended = "buddy-fragmentation"
					break
				}
				fail("R6", "crash-on-valid-call/Distribute/"+classify(msg), "%s panicked with %q", name, msg)
				break
			}
			mutated = true
			probes["distribute"]++
			touched := map[pageKey]bool{}
			for i := 0; i < b.pages; i++ {
				pk := pageKey{cm.pid, b.ptr + uint64(i)*pageSize}
				touched[pk] = true
				if rd := realDevOf(livePages[pk]); rd >= 0 {
					devs[rd].live--
				}
				page, found := pt.Find(vm.PID(cm.pid), pk.vaddr)
				if !found {
					fail("R4", "distributed-page-unmapped", "%s: page %#x vanished from the page table", name, pk.vaddr)
					break
				}
				livePages[pk] = page.PAddr
				pageDev[pk] = -1
				pageSet[pk] = ids
				if rd := realDevOf(page.PAddr); rd >= 0 {
					devs[rd].live++
				}
				everUsed[page.PAddr] = true
			}
			unchangedExcept(name, before, touched)
		case 4: // SelectGPU
			g := 1 + ch.Intn(len(devs)-1, "select")
			d.SelectGPU(cm.ctx, g)
			cm.gpu = g
			note(fmt.Sprintf("ctx%d.SelectGPU(%d)", ci, g))
		case 5: // new process
			if len(ctxs) < 4 {
				newCtx(-1)
			}
		case 6: // new thread of an existing process
			if len(ctxs) < 4 {
				newCtx(ci)
			}
		case 7: // CreateUnifiedGPU / AllocateUnifiedMemory
			if ch.Bool(1, 2, "unifiedmem") {
				avail := freeOn(1)
				if avail == 0 {
					continue
				}
				n := 1 + ch.Intn(min(4, avail), "umem.pages")
				var ptr driver.Ptr
				name := fmt.Sprintf("ctx%d.AllocateUnifiedMemory(%d pages)", ci, n)
				note(name)
				msg := call(func() { ptr = d.AllocateUnifiedMemory(cm.ctx, uint64(n)*pageSize) })
				if msg != "" && c.Buddy && (strings.Contains(msg, "not enough memory") || strings.Contains(msg, "out of memory")) {
					ended = "buddy-fragmentation"
					break
				}
				if msg != "" {
					fail("R6", "crash-on-valid-call/AllocateUnifiedMemory/"+classify(msg), "%s panicked with %q although GPU 1 has %d free pages", name, msg, avail)
					break
				}
				probes["unified_memory_alloc"]++
				b := &bufModel{ptr: uint64(ptr), pages: n, size: uint64(n) * pageSize, live: true}
				for i := 0; i < n; i++ {
					k := pageKey{cm.pid, b.ptr + uint64(i)*pageSize}
					if _, dup := livePages[k]; dup {
						fail("R2", "virtual-range-overlap", "%s returned %#x overlapping a live page", name, b.ptr)
						break
					}
					page, found := pt.Find(vm.PID(cm.pid), k.vaddr)
					if !found {
						fail("R4", "allocated-page-unmapped", "%s: page %#x is not in the page table", name, k.vaddr)
						break
					}
					livePages[k] = page.PAddr
					pageDev[k] = 1
					devs[1].live++
					everUsed[page.PAddr] = true
				}
				cm.bufs = append(cm.bufs, b)
			} else if len(c.GPUs) >= 2 && len(devs) < len(c.GPUs)+3 && !c.Buddy {
				k := 2 + ch.Intn(len(c.GPUs)-1, "unify.k")
				perm := ch.Perm(len(c.GPUs), "unify.perm")
				var ids []int
				for _, p := range perm[:k] {
					ids = append(ids, p+1)
				}
				id := d.CreateUnifiedGPU(cm.ctx, ids)
				note(fmt.Sprintf("ctx%d.CreateUnifiedGPU(%v) = device %d", ci, ids, id))
				if id != len(devs) {
					fail("R6", "unified-device-id", "CreateUnifiedGPU returned id %d, expected %d", id, len(devs))
					break
				}
				devs = append(devs, &devModel{id: id, unified: ids})
			}
		}
		if viol == nil && ended == "" {
			verify(fmt.Sprintf("step %d (%s)", step, last(history)))
		}
	}

	res := harness.Result{
		ConfigDigest: digest(fmt.Sprintf("%+v", c)), OrderDigest: hdig,
		Events: uint64(len(history)), Probes: probes,
		Faults: map[string]uint64{"capacity_exhaustion": probes["oom_confirmed"], "config_swarm": 1},
	}
	res.Nontrivial = mutated && probes["physical_page_reused"] > 0
	if viol != nil {
		res.Rule, res.Signature, res.Detail = viol.Rule, viol.Signature, viol.Detail
		if c.Buddy {
			res.Signature += "/buddy-allocator"
		}
	}
	if ended == "buddy-fragmentation" {
		probes["buddy_fragmentation_end"]++
	}
	if opt.Verbose || res.Failed() {
		h := history
		if len(h) > 70 {
			h = h[len(h)-70:]
		}
		res.Sample = map[string]any{"config": c, "history": h, "ended": ended}
	}
	return res
}

func last(h []string) string {
	if len(h) == 0 {
		return ""
	}
	return h[len(h)-1]
}

func digest(s string) uint64 {
	h := uint64(1469598103934665603)
	for i := 0; i < len(s); i++ {
		h = (h ^ uint64(s[i])) * 1099511628211
	}
	return h
}

// classify maps a panic message to a stable class for signatures.
func classify(msg string) string {
	switch {
	case strings.Contains(msg, "out of memory"):
		return "out-of-memory"
	case strings.Contains(msg, "index out of range"), strings.Contains(msg, "slice bounds"):
		return "index-out-of-range"
	case strings.Contains(msg, "page not found"):
		return "page-not-found"
	case strings.Contains(msg, "device not found"):
		return "device-not-found"
	case strings.Contains(msg, "not enough memory"):
		return "buddy-not-enough-memory"
	case strings.Contains(msg, "nil pointer"):
		return "nil-pointer"
	}
	return "other"
}
