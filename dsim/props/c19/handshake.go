package c19

import (
	"fmt"

	"github.com/sarchlab/akita/v4/mem/vm"
	"github.com/sarchlab/akita/v4/mem/vm/mmu"
	"github.com/sarchlab/akita/v4/sim"
	"github.com/sarchlab/mgpusim/v4/amd/driver"
	"github.com/sarchlab/mgpusim/v4/amd/protocol"

	"verif/dsim/choice"
	"verif/dsim/harness"
	"verif/dsim/monitor"
	"verif/dsim/rig"
	"verif/dsim/stubs"
)

// Handshake is part (b) of C19: the real driver and the real MMU perform
// on-demand page migrations against stub command processors.
type Handshake struct{}

// ID implements harness.Harness.
func (Handshake) ID() string { return "C19" }

// Version implements harness.Harness.
func (Handshake) Version() string { return "c19-handshake-v2" }

// Runs implements harness.Harness.
func (Handshake) Runs(tier string) int {
	if tier == "thorough" {
		return 200000
	}
	return 6000
}

// Meta implements harness.Harness.
func (Handshake) Meta() harness.Meta {
	return harness.Meta{
		Rule: "part (b), driver handshake: each run = one seeded (configuration, translation request sequence, schedule, fault sequence): the real amd/driver.Driver (page table, memory allocator, migration state machine) and the real akita mmu.Comp (drawn walk latency and in-flight limit) between 2-4 stub command processors, each answering the driver's protocol (RDMA drain, TLB shootdown, page migration - the stub copies the page in a model memory from the address it is told to read to the address it is told to write -, GPU restart, RDMA restart) after drawn latencies and in drawn order, and one stub L2 TLB per GPU sending translation requests for unified pages (homed on GPU 1 by the allocator), plain pages and pages of a second process with the same virtual addresses; fault-injecting links everywhere. " +
			"Oracle over the port histories and the real vm.PageTable: every translation answered exactly once with the right process/virtual page, on the requesting device unless the page had been migrated (pinned) before or is not unified, physical page inside that device and disjoint from every other live page, page contents at the answered physical address equal to the virtual page's contents; handshake order per migration (drain all - all acknowledged - shootdown - acknowledged - migrate with old/new physical address, page size and the old host's PMC port - done - restart GPUs - restart RDMA), one reply to the MMU per migration request, no new migration before the previous one finished; at quiescence: everything answered, no page's mapping or contents changed except the migrated ones; in half of the runs, while a page copy is in flight the application allocates the leaving GPU's free pages, frees one and allocates again (the free list wraps), and frees them all: no buffer may get the frame the copy reads from or a frame of any live page. " +
			"non-trivial = a fault fired or a tie was reordered and at least one migration completed; distinct = distinct (configuration digest, port-event-order digest)",
		RealComponents: []string{"amd/driver.Driver (Tick: parseFromMMU ... processRDMARestartRspToDriver, preparePageForMigration, memory allocator)", "akita mmu.Comp", "akita vm.PageTable", "akita sim.Port"},
		StubComponents: []string{"command processors (protocol responders with a model memory)", "L2 TLBs (scripted requesters)", "engine (SeededEngine)", "connections (FaultyConn)"},
		Assumptions: []string{
			"links are reliable and FIFO per pair",
			"translation requests carry page-aligned virtual addresses (what akita's address translator and TLBs send)",
			"pages are not written during a run, so a page's contents identify it",
		},
		FaultKinds:     []string{"tie_reorder", "delay", "cross_reorder", "backpressure", "slow_lower_level", "ooo_response"},
		ExpectedProbes: []string{"allocation_during_migration_window", "migration_completed", "request_for_page_being_migrated", "request_after_pinned", "second_process_same_vaddr", "four_gpus", "plain_page_remote_access", "queued_migrations"},
		ShrinkBudget:   300,
	}
}

type hsPage struct {
	pid       vm.PID
	vaddr     uint64
	unified   bool
	origPAddr uint64
	curPAddr  uint64
	curDev    uint64
	migrated  bool
	seed      uint64
}

func pageByte(seed uint64, i int) byte {
	x := (seed+uint64(i))*0x9e3779b97f4a7c15 + 0x7f4a
	x ^= x >> 31
	return byte(x >> 17)
}

type hsReq struct {
	idx      int
	page     *hsPage
	dev      uint64
	sent     bool
	answered int
	id       string
}

// Run implements harness.Harness.
func (Handshake) Run(ch *choice.Source, opt harness.Options) harness.Result {
	return runHandshake(ch, opt, false)
}

// runHandshake is the body of parts (b) and (c). With realCP false the command
// processors are protocol stubs (part b, decision stream unchanged since
// c19-handshake-v1); with realCP true each GPU has the real cp.CommandProcessor
// with stub components behind it (part c, cpctrl.go).
func runHandshake(ch *choice.Source, opt harness.Options, realCP bool) harness.Result {
	const pageSize = 4096
	r := rig.New(ch, 3_000_000)
	nGPU := 2 + ch.Intn(3, "gpus")
	nUnified := 1 + ch.Intn(6, "unifiedpages")
	nPlain := ch.Intn(3, "plainpages")
	twoProc := ch.Bool(1, 3, "twoproc")
	nReq := 1 + ch.Intn(14, "nreq")
	walkLat := 1 + ch.Intn(12, "walklat")
	inflight := 1 + ch.Intn(8, "mmu.inflight")
	// migration-window probe: while a page copy is in flight, the application allocates and frees
	// device memory on the GPU the page is leaving (see windowProbe below)
	winProbe := ch.Bool(1, 2, "winprobe")
	r.Mix("cfg", []int{nGPU, nUnified, nPlain, nReq, walkLat, inflight})
	r.Mix("winprobe", winProbe)
	var windowProbe func()
	probes := map[string]uint64{}
	if nGPU == 4 {
		probes["four_gpus"] = 1
	}

	pt := vm.NewPageTable(12)
	d := driver.MakeBuilder().WithEngine(r.Eng).WithFreq(r.Freq).WithPageTable(pt).WithLog2PageSize(12).Build("Driver")
	memModel := map[uint64][]byte{} // physical page address -> contents
	devBase := []uint64{pageSize}   // device 0 = CPU: 4 GiB from pageSize
	next := uint64(pageSize) + 4<<30
	const gpuPages = 64
	var pmcPorts []sim.Port
	var cpPorts []sim.Port // the port of each GPU's command processor that faces the driver
	var cpOras []*cpOracle

	var viol *harness.Result
	fail := func(rule, sig, format string, a ...any) {
		if viol == nil {
			viol = &harness.Result{Rule: rule, Signature: sig, Detail: fmt.Sprintf(format, a...)}
		}
	}
	r.Abort = func() bool { return viol != nil }

	// ---- handshake state machine (observed on the driver's GPU port) ----
	type epochT struct {
		drainSent, drainAck, shootSent, shootAck, migSent, migAck, restartSent, restartAck, rdmaRestartSent, rdmaRestartAck int
		mmuRsp                                                                                                          int
		active                                                                                                          bool
	}
	var ep epochT
	migrations := 0
	var pages []*hsPage
	findPage := func(pid vm.PID, vaddr uint64) *hsPage {
		for _, p := range pages {
			if p.pid == pid && p.vaddr == vaddr&^uint64(pageSize-1) {
				return p
			}
		}
		return nil
	}
	var curMig *vm.PageMigrationReqToDriver

	for g := 0; g < nGPU; g++ {
		g := g
		if realCP {
			// part (c): the real command processor, built after the driver's ports exist
			continue
		}
		cp := r.Responder(fmt.Sprintf("CP[%d]", g), 2+ch.Intn(6, "cp.inbuf"), 2+ch.Intn(6, "cp.outbuf"), nil)
		cp.Serve = func(m sim.Msg, _ uint64) []sim.Msg {
			src, dst := cp.Port.AsRemote(), m.Meta().Src
			mk := func(rsp sim.Msg) []sim.Msg {
				rsp.Meta().Src, rsp.Meta().Dst = src, dst
				rsp.Meta().ID = sim.GetIDGenerator().Generate()
				return []sim.Msg{rsp}
			}
			switch req := m.(type) {
			case *protocol.RDMADrainCmdFromDriver:
				return mk(&protocol.RDMADrainRspToDriver{})
			case *protocol.ShootDownCommand:
				return mk(&protocol.ShootDownCompleteRsp{})
			case *protocol.PageMigrationReqToCP:
				if windowProbe != nil {
					windowProbe()
				}
				// the stub performs the copy it is asked for
				from, to := req.ToReadFromPhysicalAddress, req.ToWriteToPhysicalAddress
				if req.PageSize != pageSize || from%pageSize != 0 || to%pageSize != 0 {
					fail("R1", "migration-request-not-one-aligned-page", "PageMigrationReqToCP read %#x write %#x size %d", from, to, req.PageSize)
					return mk(&protocol.PageMigrationRspToDriver{})
				}
				srcData, ok := memModel[from]
				if !ok {
					fail("R1", "migration-reads-unallocated-page", "PageMigrationReqToCP reads physical page %#x which holds no page", from)
					srcData = make([]byte, pageSize)
				}
				memModel[to] = append([]byte{}, srcData...)
				return mk(&protocol.PageMigrationRspToDriver{})
			case *protocol.GPURestartReq:
				return mk(&protocol.GPURestartRsp{})
			case *protocol.RDMARestartCmdFromDriver:
				return mk(&protocol.RDMARestartRspToDriver{})
			}
			fail("R3", "unexpected-message-to-cp", "CP[%d] got %T", g, m)
			return nil
		}
		cpPorts = append(cpPorts, cp.Port)
		d.RegisterGPU(cp.Port, driver.DeviceProperties{CUCount: 4, DRAMSize: gpuPages * pageSize})
		devBase = append(devBase, next)
		next += gpuPages * pageSize
		pmc := sim.NewPort(cp, 1, 1, fmt.Sprintf("CP[%d].PMCRemote", g))
		pmcPorts = append(pmcPorts, pmc)
		d.RemotePMCPorts = append(d.RemotePMCPorts, pmc)
	}
	if realCP {
		for g := 0; g < nGPU; g++ {
			proc, pmc, ora := buildRealCP(r, ch, g, d.GetPortByName("GPU"), memModel, pageSize, fail, probes, func() {
				if windowProbe != nil {
					windowProbe()
				}
			})
			cpPorts = append(cpPorts, proc.ToDriver)
			cpOras = append(cpOras, ora)
			d.RegisterGPU(proc.ToDriver, driver.DeviceProperties{CUCount: 4, DRAMSize: gpuPages * pageSize})
			devBase = append(devBase, next)
			next += gpuPages * pageSize
			pmcPorts = append(pmcPorts, pmc)
			d.RemotePMCPorts = append(d.RemotePMCPorts, pmc)
		}
	}
	devOf := func(paddr uint64) int {
		for g := 1; g <= nGPU; g++ {
			if paddr >= devBase[g] && paddr < devBase[g]+gpuPages*pageSize {
				return g
			}
		}
		return -1
	}

	gpuPort := d.GetPortByName("GPU")
	mmuPortD := d.GetPortByName("MMU")
	mmuComp := mmu.MakeBuilder().WithEngine(r.Eng).WithFreq(r.Freq).WithLog2PageSize(12).WithPageTable(pt).
		WithMigrationServiceProvider(mmuPortD.AsRemote()).WithMaxNumReqInFlight(inflight).WithPageWalkingLatency(walkLat).Build("MMU")
	top := mmuComp.GetPortByName("Top")
	migPort := mmuComp.GetPortByName("Migration")

	// ---- allocation ----
	ctxs := []*driver.Context{d.Init()}
	if twoProc {
		ctxs = append(ctxs, d.Init())
		probes["second_process_same_vaddr"] = 1
	}
	for ci, ctx := range ctxs {
		pid := vm.PID(ctx.VerifPID())
		for i := 0; i < nUnified; i++ {
			d.SelectGPU(ctx, 1+ch.Intn(nGPU, "alloc.gpu"))
			ptr := uint64(d.AllocateUnifiedMemory(ctx, pageSize))
			pages = append(pages, &hsPage{pid: pid, vaddr: ptr, unified: true})
		}
		if ci == 0 {
			for i := 0; i < nPlain; i++ {
				d.SelectGPU(ctx, 1+ch.Intn(nGPU, "plain.gpu"))
				ptr := uint64(d.AllocateMemory(ctx, pageSize))
				pages = append(pages, &hsPage{pid: pid, vaddr: ptr})
			}
		}
	}
	for i, p := range pages {
		pg, ok := pt.Find(p.pid, p.vaddr)
		if !ok {
			harness.Bug("allocated page pid %d vaddr %#x not in the table", p.pid, p.vaddr)
		}
		p.origPAddr, p.curPAddr, p.curDev = pg.PAddr, pg.PAddr, pg.DeviceID
		p.seed = uint64(i+1) * 0x1000193
		data := make([]byte, pageSize)
		for k := range data {
			data[k] = pageByte(p.seed, k)
		}
		memModel[pg.PAddr] = data
	}

	// ---- migration-window probe ----
	// A lower bound of the free pages of every GPU: its size minus everything ever allocated on it
	// (a migrated page's old frame is never counted as free again, whether or not the driver frees it).
	allocatedOn := make([]int, nGPU+1)
	for _, p := range pages {
		if g := devOf(p.curPAddr); g >= 1 {
			allocatedOn[g]++
		}
	}
	var migSrcDev int
	var migSrcPAddr uint64
	if winProbe {
		windowProbe = func() {
			g := migSrcDev
			if viol != nil || g < 1 || g > nGPU {
				return
			}
			free := gpuPages - allocatedOn[g]
			if free < 1 {
				return
			}
			if free > 1 && ch.Bool(1, 2, "winprobe.partial") {
				free = 1 + ch.Intn(free, "winprobe.n") // do not always drain the GPU
			}
			ctx := ctxs[0]
			d.SelectGPU(ctx, g)
			var mine []uint64
			minePAddr := map[uint64]uint64{}
			check := func(ptr uint64, step string) bool {
				pg, ok := pt.Find(vm.PID(ctx.VerifPID()), ptr)
				if !ok {
					fail("R2", "allocated-page-not-mapped", "buffer %#x allocated on GPU %d during a migration is not in the page table", ptr, g)
					return false
				}
				if pg.PAddr == migSrcPAddr {
					fail("R2", "source-page-reallocated-during-copy", "%s: a buffer allocated on GPU %d while a page is being copied away from it got the very frame %#x the copy reads from (still mapped by the migrating page)", step, g, pg.PAddr)
					return false
				}
				for _, o := range pages {
					if og, ok := pt.Find(o.pid, o.vaddr); (ok && og.PAddr == pg.PAddr) || o.curPAddr == pg.PAddr {
						fail("R2", "physical-page-aliased", "%s: buffer %#x allocated on GPU %d during a migration got physical page %#x, which holds pid %d vaddr %#x", step, ptr, g, pg.PAddr, o.pid, o.vaddr)
						return false
					}
				}
				for v, pa := range minePAddr {
					if pa == pg.PAddr && v != ptr {
						fail("R2", "physical-page-aliased", "%s: two live buffers %#x and %#x got physical page %#x", step, v, ptr, pa)
						return false
					}
				}
				minePAddr[ptr] = pg.PAddr
				return true
			}
			for i := 0; i < free; i++ {
				ptr := uint64(d.AllocateMemory(ctx, pageSize))
				mine = append(mine, ptr)
				if !check(ptr, "fill") {
					return
				}
			}
			// free one, allocate one: the allocator's free list has wrapped around
			victim := ch.Intn(len(mine), "winprobe.victim")
			_ = d.FreeMemory(ctx, driver.Ptr(mine[victim]))
			delete(minePAddr, mine[victim])
			mine[victim] = uint64(d.AllocateMemory(ctx, pageSize))
			if !check(mine[victim], "free-one-allocate-one") {
				return
			}
			for _, ptr := range mine {
				_ = d.FreeMemory(ctx, driver.Ptr(ptr))
			}
			probes["allocation_during_migration_window"]++
		}
	}

	// ---- requesters (one L2 TLB per GPU) ----
	var tlbs []*stubs.Requester
	var reqs []*hsReq
	byID := map[string]*hsReq{}
	for g := 0; g < nGPU; g++ {
		tlbs = append(tlbs, r.Requester(fmt.Sprintf("L2TLB[%d]", g), 1+ch.Intn(8, "tlb.inbuf"), 1+ch.Intn(8, "tlb.outbuf")))
	}
	cycle := uint64(1)
	for i := 0; i < nReq; i++ {
		rq := &hsReq{idx: i, page: pages[ch.Intn(len(pages), "req.page")], dev: uint64(1 + ch.Intn(nGPU, "req.dev"))}
		if ch.Bool(2, 3, "req.burst") {
			cycle += uint64(ch.Intn(3, "req.gap.small"))
		} else {
			cycle += uint64(ch.Intn(400, "req.gap"))
		}
		m := vm.TranslationReqBuilder{}.WithDst(top.AsRemote()).WithPID(rq.page.pid).WithVAddr(rq.page.vaddr).WithDeviceID(rq.dev).Build()
		rq.id = m.ID
		byID[m.ID] = rq
		reqs = append(reqs, rq)
		tlbs[rq.dev-1].Add(stubs.ScriptItem{NotBefore: cycle, Msg: m, OnSent: func(sim.Msg) { rq.sent = true }})
		if !rq.page.unified && uint64(devOf(rq.page.origPAddr)) != rq.dev {
			probes["plain_page_remote_access"] = 1
		}
	}

	// ---- wiring ----
	ports := []sim.Port{gpuPort}
	ports = append(ports, cpPorts...)
	r.Conn("ConnGPU", ports...)
	r.Conn("ConnMMU", mmuPortD, migPort)
	tports := []sim.Port{top}
	for _, t := range tlbs {
		tports = append(tports, t.Port)
	}
	r.Conn("ConnTop", tports...)
	r.Rec.Attach(gpuPort, "drv.gpu")
	r.Rec.Attach(mmuPortD, "drv.mmu")
	r.Rec.Attach(top, "mmu.top")
	r.Kick = append(r.Kick, d, mmuComp)

	answeredN := 0
	checkRsp := func(rsp *vm.TranslationRsp) {
		rq := byID[rsp.RespondTo]
		if rq == nil {
			fail("R3", "translation-response-to-nothing", "TranslationRsp to unknown request %s", rsp.RespondTo)
			return
		}
		rq.answered++
		answeredN++
		if rq.answered > 1 {
			fail("R3", "translation-answered-twice", "translation request %d answered %d times", rq.idx, rq.answered)
			return
		}
		p := rq.page
		pg := rsp.Page
		if pg.PID != p.pid || pg.VAddr != p.vaddr {
			fail("R2", "translation-answers-other-page", "request %d for pid %d vaddr %#x answered with pid %d vaddr %#x", rq.idx, p.pid, p.vaddr, pg.PID, pg.VAddr)
			return
		}
		if p.migrated && pg.DeviceID != rq.dev {
			probes["request_after_pinned"] = 1
		}
		if p.unified && !p.migrated && pg.DeviceID != rq.dev {
			fail("R2", "unified-page-not-on-requesting-device", "request %d from GPU %d for a unified page never migrated before is answered with device %d", rq.idx, rq.dev, pg.DeviceID)
			return
		}
		if devOf(pg.PAddr) != int(pg.DeviceID) {
			fail("R2", "physical-page-outside-its-device", "request %d: page says device %d, physical address %#x belongs to device %d", rq.idx, pg.DeviceID, pg.PAddr, devOf(pg.PAddr))
			return
		}
		for _, o := range pages {
			if o == p {
				continue
			}
			if og, ok := pt.Find(o.pid, o.vaddr); ok && og.PAddr == pg.PAddr {
				fail("R2", "physical-page-aliased", "request %d: physical page %#x answered for pid %d vaddr %#x is also mapped by pid %d vaddr %#x", rq.idx, pg.PAddr, p.pid, p.vaddr, o.pid, o.vaddr)
				return
			}
		}
		data := memModel[pg.PAddr]
		for k := 0; k < pageSize; k++ {
			var got byte
			if data != nil {
				got = data[k]
			}
			if data == nil || got != pageByte(p.seed, k) {
				fail("R1", "answered-physical-page-lacks-the-contents", "request %d from GPU %d: physical page %#x (device %d) does not hold the page's contents at byte %d (page migrated before: %v)", rq.idx, rq.dev, pg.PAddr, pg.DeviceID, k, p.migrated)
				return
			}
		}
	}

	r.Rec.OnEvent = func(e *monitor.Event) {
		if viol != nil {
			return
		}
		if len(e.Port) > 3 && e.Port[:3] == "cp/" {
			cpOras[int(e.Port[3]-'0')].onEvent(e)
			return
		}
		switch e.Port {
		case "mmu.top":
			if e.Kind == monitor.Recvd && ep.active && curMig != nil {
				if rq, ok := e.Msg.(*vm.TranslationReq); ok && findPage(rq.PID, rq.VAddr) == findPage(curMig.PID, firstVAddr(curMig)) {
					probes["request_for_page_being_migrated"]++
				}
			}
			if e.Kind == monitor.Send {
				if rsp, ok := e.Msg.(*vm.TranslationRsp); ok {
					checkRsp(rsp)
				}
			}
		case "drv.mmu":
			switch m := e.Msg.(type) {
			case *vm.PageMigrationReqToDriver:
				if e.Kind == monitor.RetrieveIn {
					if ep.active {
						fail("R4", "migration-started-before-previous-finished", "driver took a migration request while the previous handshake was unfinished: %+v", ep)
						return
					}
					ep = epochT{active: true}
					curMig = m
					if p := findPage(m.PID, firstVAddr(m)); p != nil && p.migrated {
						fail("R4", "pinned-page-migrated-again", "migration requested for a page that was migrated before")
					}
				}
				if e.Kind == monitor.Recvd && ep.active {
					probes["queued_migrations"] = 1
				}
			case *vm.PageMigrationRspFromDriver:
				if e.Kind == monitor.Send {
					ep.mmuRsp++
					if ep.mmuRsp > 1 || ep.migAck < ep.migSent || ep.migSent == 0 {
						fail("R3", "completion-reported-wrongly", "reply to the MMU number %d with %d of %d page copies done", ep.mmuRsp, ep.migAck, ep.migSent)
					}
				}
			}
		case "drv.gpu":
			if e.Kind == monitor.Send {
				switch m := e.Msg.(type) {
				case *protocol.RDMADrainCmdFromDriver:
					ep.drainSent++
				case *protocol.ShootDownCommand:
					ep.shootSent++
					if ep.drainAck < nGPU {
						fail("R4", "shootdown-before-drain-complete", "shootdown sent with %d of %d drain acknowledgements", ep.drainAck, nGPU)
					}
				case *protocol.PageMigrationReqToCP:
					ep.migSent++
					if ep.shootAck < ep.shootSent || ep.shootSent == 0 || ep.drainAck < nGPU {
						fail("R4", "migration-before-shootdown-complete", "page copy requested with %d/%d drain and %d/%d shootdown acknowledgements", ep.drainAck, nGPU, ep.shootAck, ep.shootSent)
						return
					}
					if curMig == nil {
						fail("R4", "migration-without-request", "page copy requested without a migration request")
						return
					}
					p := findPage(curMig.PID, firstVAddr(curMig))
					if p == nil {
						harness.Bug("migration of an unknown page")
					}
					wantDev := reqDevice(curMig)
					// (whether the table already shows the new page at this point is the driver's choice;
					// what matters is what translations are answered with, and the table after completion)
					switch {
					case m.ToReadFromPhysicalAddress != p.curPAddr:
						fail("R1", "copy-reads-wrong-source", "page copy reads %#x, the page was at %#x", m.ToReadFromPhysicalAddress, p.curPAddr)
					case devOf(m.ToWriteToPhysicalAddress) != int(wantDev):
						fail("R2", "page-rehomed-to-wrong-device", "page requested by GPU %d is copied to %#x (device %d)", wantDev, m.ToWriteToPhysicalAddress, devOf(m.ToWriteToPhysicalAddress))
					case m.Meta().Dst != cpPorts[wantDev-1].AsRemote():
						fail("R4", "copy-sent-to-wrong-gpu", "page copy for GPU %d sent to %s", wantDev, m.Meta().Dst)
					case m.DestinationPMCPort != pmcPorts[p.curDev-1]:
						fail("R4", "copy-pulls-from-wrong-pmc", "page on GPU %d is pulled from %s", p.curDev, m.DestinationPMCPort.Name())
					}
					for _, o := range pages {
						if o != p && o.curPAddr == m.ToWriteToPhysicalAddress {
							fail("R2", "copy-overwrites-live-page", "page copy writes %#x which holds pid %d vaddr %#x", m.ToWriteToPhysicalAddress, o.pid, o.vaddr)
						}
					}
					migSrcDev, migSrcPAddr = int(p.curDev), p.curPAddr
					allocatedOn[wantDev]++
					p.curPAddr, p.curDev, p.migrated = m.ToWriteToPhysicalAddress, wantDev, true
				case *protocol.GPURestartReq:
					ep.restartSent++
					if ep.migAck < ep.migSent || ep.migSent == 0 {
						fail("R4", "restart-before-copy-complete", "GPU restart sent with %d of %d page copies done", ep.migAck, ep.migSent)
					}
				case *protocol.RDMARestartCmdFromDriver:
					ep.rdmaRestartSent++
					if ep.restartAck < ep.restartSent || ep.restartSent == 0 {
						fail("R4", "rdma-restart-before-gpu-restart-complete", "RDMA restart sent with %d of %d GPU restart acknowledgements", ep.restartAck, ep.restartSent)
					}
				}
			}
			if e.Kind == monitor.RetrieveIn {
				switch e.Msg.(type) {
				case *protocol.RDMADrainRspToDriver:
					ep.drainAck++
				case *protocol.ShootDownCompleteRsp:
					ep.shootAck++
				case *protocol.PageMigrationRspToDriver:
					ep.migAck++
				case *protocol.GPURestartRsp:
					ep.restartAck++
				case *protocol.RDMARestartRspToDriver:
					ep.rdmaRestartAck++
					if ep.rdmaRestartAck == nGPU {
						if ep.drainSent != nGPU || ep.rdmaRestartSent != nGPU || ep.mmuRsp != 1 {
							fail("R4", "handshake-incomplete", "handshake ended with %+v", ep)
						}
						ep.active = false
						migrations++
						probes["migration_completed"]++
					}
				}
			}
		}
	}

	opt.Describe(map[string]any{"gpus": nGPU, "unified": nUnified, "plain": nPlain, "requests": nReq, "swarm": r.Swarm})
	end := r.Run()

	res := harness.Result{
		ConfigDigest: r.ConfigDigest(), OrderDigest: r.Rec.Digest(),
		Events: r.Eng.Stats.Events, SimTime: float64(r.Eng.CurrentTime()),
		Faults: r.Faults(), Probes: probes,
	}
	res.Nontrivial = rig.AnyFault(res.Faults) && migrations > 0
	if viol == nil {
		if mr := r.Misrouted(); len(mr) > 0 {
			fail("R3", "misrouted", "message to an unknown port: %s", mr[0])
		}
	}
	if viol == nil {
		if end == "event-cap" {
			res.Inconclusive = "event-cap"
		} else {
			for _, rq := range reqs {
				if !rq.sent {
					fail("LIVE", "translation-never-accepted", "translation request %d could not be sent; end=%q handshake %+v", rq.idx, end, ep)
					break
				}
				if rq.answered == 0 {
					fail("LIVE", "translation-unanswered", "translation request %d (GPU %d, unified %v, page migrated %v) never answered; end=%q handshake %+v", rq.idx, rq.dev, rq.page.unified, rq.page.migrated, end, ep)
					break
				}
			}
			if viol == nil && ep.active {
				fail("LIVE", "handshake-unfinished", "migration handshake never finished: %+v; end=%q", ep, end)
			}
			for _, o := range cpOras {
				if viol == nil {
					o.atEnd()
				}
			}
		}
	}
	if viol == nil && res.Inconclusive == "" {
		// final state: mappings and contents
		for _, p := range pages {
			pg, ok := pt.Find(p.pid, p.vaddr)
			if !ok {
				fail("R2", "page-lost-from-table", "pid %d vaddr %#x is no longer mapped", p.pid, p.vaddr)
				break
			}
			if !p.migrated && (pg.PAddr != p.origPAddr || pg.DeviceID != uint64(devOf(p.origPAddr))) {
				fail("R2", "unrelated-mapping-changed", "pid %d vaddr %#x never migrated but moved from %#x to %#x", p.pid, p.vaddr, p.origPAddr, pg.PAddr)
				break
			}
			if p.migrated && pg.PAddr != p.curPAddr {
				fail("R2", "migrated-page-mapping-changed-afterwards", "pid %d vaddr %#x: table says %#x, migration wrote %#x", p.pid, p.vaddr, pg.PAddr, p.curPAddr)
				break
			}
			data := memModel[pg.PAddr]
			for k := 0; k < pageSize && viol == nil; k++ {
				if data == nil || data[k] != pageByte(p.seed, k) {
					fail("R1", "final-contents-wrong", "pid %d vaddr %#x at physical %#x: contents differ at byte %d", p.pid, p.vaddr, pg.PAddr, k)
				}
			}
		}
	}
	if viol != nil {
		res.Rule, res.Signature, res.Detail = viol.Rule, viol.Signature, viol.Detail
	}
	if opt.Verbose || res.Failed() {
		res.Sample = map[string]any{"gpus": nGPU, "unified_pages": nUnified, "plain_pages": nPlain, "two_processes": twoProc, "requests": nReq,
			"answered": answeredN, "migrations": migrations, "end": end, "swarm": r.Swarm}
	}
	if res.Failed() {
		res.Log = r.Rec.Dump(80, func(m sim.Msg) string { return fmt.Sprintf("%T", m) })
	}
	return res
}

func firstVAddr(m *vm.PageMigrationReqToDriver) uint64 {
	for _, v := range m.MigrationInfo.GPUReqToVAddrMap {
		if len(v) > 0 {
			return v[0]
		}
	}
	return 0
}

func reqDevice(m *vm.PageMigrationReqToDriver) uint64 {
	for g := range m.MigrationInfo.GPUReqToVAddrMap {
		return g
	}
	return 0
}
