// Package c19 decides property C19. ring.go is part (a): 2-4 real
// PageMigrationControllers, each with an adversarial memory and a control
// agent, remote ports joined by a fault-injecting connection.
package c19

import (
	"fmt"
	"sort"

	"github.com/sarchlab/akita/v4/mem/mem"
	"github.com/sarchlab/akita/v4/sim"
	pmcpkg "github.com/sarchlab/mgpusim/v4/amd/timing/pagemigrationcontroller"

	"verif/dsim/choice"
	"verif/dsim/harness"
	"verif/dsim/monitor"
	"verif/dsim/rig"
	"verif/dsim/simnet"
	"verif/dsim/stubs"
)

// Ring is the PMC ring harness.
type Ring struct{}

// ID implements harness.Harness.
func (Ring) ID() string { return "C19" }

// Version implements harness.Harness.
func (Ring) Version() string { return "c19-ring-v4" }

// Runs implements harness.Harness.
func (Ring) Runs(tier string) int {
	if tier == "thorough" {
		return 300000
	}
	return 12000
}

// Meta implements harness.Harness.
func (Ring) Meta() harness.Meta {
	return harness.Meta{
		Rule: "part (a), PMC ring: each run = one seeded (configuration, migration request sequence, schedule, fault sequence): 2-4 real PageMigrationControllers (1-deep ports as built by NewPageMigrationController), " +
			"each with a memory of its own and a control agent; 1-8 PageMigrationReqToPMC per run, page sizes 64 B x 1..256, drawn source/destination GPU pairs, requests queued while one is in progress; " +
			"memories answering in drawn order/latency, delayed/stalled links, control agent holding completions back, same-time events permuted. In the default mode at most one PMC pulls from a given source PMC at a time (what the driver does: one migration at a time); " +
			"one run in 6 lets several PMCs pull from one source concurrently. non-trivial = a fault fired or a tie was reordered and at least one migration completed; distinct = distinct (configuration digest, port-event-order digest)",
		RealComponents: []string{"amd/timing/pagemigrationcontroller.PageMigrationController x 2-4 (NewPageMigrationController)", "akita mem.SinglePortMapper", "akita sim.Port"},
		StubComponents: []string{"memories (flat byte array, adversarial)", "control agents (scripted)", "engine (SeededEngine)", "connections (FaultyConn)"},
		Assumptions: []string{
			"links are reliable and FIFO per pair",
			"source pages are not written during a run (destination regions are disjoint from every source region), so the source snapshot at request time is the source content",
		},
		FaultKinds:     []string{"tie_reorder", "delay", "cross_reorder", "backpressure", "slow_lower_level", "ooo_response"},
		ExpectedProbes: []string{"request_while_busy", "large_page", "memory_answered_out_of_order", "concurrent_pull_from_one_source", "four_pmcs"},
		ShrinkBudget:   400,
	}
}

type ringCfg struct {
	PMCs       int
	NReq       int
	Concurrent bool
	OneConn    bool
	Focus      bool
	// SlowConsumer: the control agents hold completions back for long and the
	// links carry one message at a time.
	SlowConsumer bool
}

type migration struct {
	idx       int
	dst, src  int // dst = the PMC that receives the request and pulls; src = page owner
	readFrom  uint64
	writeTo   uint64
	size      uint64
	sent      bool
	completed bool
}

func bgFor(g int) func(uint64) byte {
	return func(addr uint64) byte {
		x := (addr+uint64(g)*0x1000003)*0x9e3779b97f4a7c15 + 0x51ed
		x ^= x >> 29
		return byte(x>>23) | 1
	}
}

// Run implements harness.Harness.
func (Ring) Run(ch *choice.Source, opt harness.Options) harness.Result {
	r := rig.New(ch, 3_000_000)
	c := ringCfg{PMCs: 2 + ch.Intn(3, "pmcs"), NReq: 1 + ch.Intn(8, "nreq"), Concurrent: ch.Intn(6, "concurrent") == 5, OneConn: ch.Bool(1, 2, "oneconn"), Focus: ch.Bool(1, 2, "focus")}
	if c.Focus {
		c.NReq += ch.Intn(6, "nreq+")
	}
	c.SlowConsumer = ch.Bool(1, 3, "slowconsumer")
	if c.SlowConsumer {
		r.ConnTweak = func(_ string, cfg *simnet.Config) { cfg.InFlightCap = 1 }
	}
	r.Mix("cfg", c)
	n := c.PMCs

	pmcs := make([]*pmcpkg.PageMigrationController, n)
	mems := make([]*stubs.Memory, n)
	ctrls := make([]*stubs.Requester, n)
	for g := 0; g < n; g++ {
		mems[g] = r.Memory(fmt.Sprintf("Mem[%d]", g), 1+ch.Intn(8, "mem.inbuf"), 1+ch.Intn(8, "mem.outbuf"))
		mems[g].Background = bgFor(g)
		pmcs[g] = pmcpkg.NewPageMigrationController(fmt.Sprintf("GPU[%d].PMC", g), r.Eng,
			&mem.SinglePortMapper{Port: mems[g].Port.AsRemote()}, nil)
		inbuf := 1 + ch.Intn(4, "ctrl.inbuf")
		if c.SlowConsumer {
			inbuf = 1
		}
		ctrls[g] = r.Requester(fmt.Sprintf("Ctrl[%d]", g), inbuf, 1+ch.Intn(4, "ctrl.outbuf"))
		ctrls[g].SendPerCycle = 1
		if c.SlowConsumer {
			// a control agent that is slow to take completions: back-pressure
			// reaches the controller's 1-deep control port
			ctrls[g].HoldNum, ctrls[g].HoldDen = 1, 2
			ctrls[g].MaxHolds = 10 + ch.Intn(40, "ctrl.maxholds")
			ctrls[g].HoldBurstMax = 20 + ch.Intn(300, "ctrl.holdburst")
		}
	}
	remote := func(g int) sim.Port { return pmcs[g].GetPortByName("Remote") }
	local := func(g int) sim.Port { return pmcs[g].GetPortByName("LocalMem") }
	ctl := func(g int) sim.Port { return pmcs[g].GetPortByName("Control") }

	var fabric []sim.Port
	for g := 0; g < n; g++ {
		fabric = append(fabric, remote(g))
	}
	if c.OneConn {
		all := append([]sim.Port{}, fabric...)
		for g := 0; g < n; g++ {
			all = append(all, local(g), mems[g].Port, ctl(g), ctrls[g].Port)
		}
		r.Conn("Conn", all...)
	} else {
		r.Conn("Fabric", fabric...)
		for g := 0; g < n; g++ {
			r.Conn(fmt.Sprintf("In[%d]", g), local(g), mems[g].Port, ctl(g), ctrls[g].Port)
		}
	}
	for g := 0; g < n; g++ {
		r.Rec.Attach(ctl(g), fmt.Sprintf("%d.ctrl", g))
		r.Rec.Attach(remote(g), fmt.Sprintf("%d.remote", g))
		r.Rec.Attach(local(g), fmt.Sprintf("%d.mem", g))
	}
	portGPU := map[string]int{}
	portKind := map[string]string{}
	for g := 0; g < n; g++ {
		for _, k := range []string{"ctrl", "remote", "mem"} {
			portGPU[fmt.Sprintf("%d.%s", g, k)] = g
			portKind[fmt.Sprintf("%d.%s", g, k)] = k
		}
	}

	// ---- workload ----
	probes := map[string]uint64{}
	if n == 4 {
		probes["four_pmcs"] = 1
	}
	var migs []*migration
	perPMC := make([][]*migration, n)
	// pullersOf[src] = number of unfinished migrations pulling from src (requester-side view)
	activeOn := make([]int, n)
	nextDst := uint64(1 << 20)
	focus := -1
	if c.Focus {
		focus = ch.Intn(n, "focus")
	}
	for i := 0; i < c.NReq; i++ {
		m := &migration{idx: i}
		m.dst = ch.Intn(n, "dst")
		if focus >= 0 && !ch.Bool(1, 5, "offfocus") {
			// most requests queue up at one controller
			m.dst = focus
		}
		m.src = (m.dst + 1 + ch.Intn(n-1, "src")) % n
		blocks := 1 + ch.Intn(8, "blocks")
		switch ch.Intn(8, "pagesize") {
		case 6:
			blocks = 64 // 4 KiB
			probes["large_page"]++
		case 7:
			blocks = 256 // 16 KiB
			probes["large_page"]++
		}
		m.size = uint64(blocks) * 64
		m.readFrom = uint64(ch.Intn(60, "srcpage")) * 16384 // source regions end below 1 MiB, destinations start there
		if ch.Bool(1, 4, "src.unaligned") {
			m.readFrom += 64 * uint64(ch.Intn(8, "srcoff"))
		}
		m.writeTo = nextDst
		nextDst += m.size + 64*uint64(ch.Intn(3, "dstgap"))
		migs = append(migs, m)
		perPMC[m.dst] = append(perPMC[m.dst], m)
		mm := m
		ctrls[m.dst].Add(stubs.ScriptItem{
			NotBefore: uint64(ch.Intn(60, "at")),
			Gate: func() bool {
				if c.Concurrent {
					return true
				}
				// one migration in the whole system pulls from a given source at a time
				return activeOn[mm.src] == 0
			},
			Make: func() sim.Msg {
				return pmcpkg.PageMigrationReqToPMCBuilder{}.
					WithDst(ctl(mm.dst).AsRemote()).
					WithReadFrom(mm.readFrom).WithWriteTo(mm.writeTo).WithPageSize(mm.size).
					WithPMCPortOfRemoteGPU(remote(mm.src).AsRemote()).Build()
			},
			OnSent: func(sim.Msg) { mm.sent = true; activeOn[mm.src]++ },
		})
	}
	completedPer := make([]int, n)
	for g := 0; g < n; g++ {
		gg := g
		ctrls[g].OnRecv = func(m sim.Msg) {
			if _, ok := m.(*pmcpkg.PageMigrationRspFromPMC); ok {
				// requester-side bookkeeping only (the oracle works on the port history)
				k := completedPer[gg]
				if k < len(perPMC[gg]) {
					activeOn[perPMC[gg][k].src]--
				}
				completedPer[gg]++
				for _, q := range ctrls {
					q.TickLater()
				}
			}
		}
	}

	// ---- oracle ----
	var viol *harness.Result
	fail := func(rule, sig, format string, a ...any) {
		if viol == nil {
			viol = &harness.Result{Rule: rule, Signature: sig, Detail: fmt.Sprintf(format, a...)}
		}
	}
	r.Abort = func() bool { return viol != nil }
	accepted := make([]int, n)  // requests retrieved by the PMC
	responded := make([]int, n) // completions sent
	pulling := make([]int, n)   // per source: PMCs currently pulling from it (history view)
	lastArr := make([]int, n)
	for g := range lastArr {
		lastArr[g] = -1
	}
	totalCompleted := 0

	checkPage := func(m *migration) {
		src := bgFor(m.src)
		for k := uint64(0); k < m.size; k++ {
			got := mems[m.dst].ByteAt(m.writeTo + k)
			want := src(m.readFrom + k)
			if _, written := mems[m.dst].Storage[m.writeTo+k]; !written {
				fail("R1", "completion-before-copy", "migration %d (PMC %d <- PMC %d, %d bytes) reported complete but destination byte +%d was never written", m.idx, m.dst, m.src, m.size, k)
				return
			}
			if got != want {
				fail("R1", "destination-differs", "migration %d (PMC %d <- PMC %d, %d bytes): destination byte +%d = %#x, source = %#x", m.idx, m.dst, m.src, m.size, k, got, want)
				return
			}
		}
	}

	r.Rec.OnEvent = func(e *monitor.Event) {
		g := portGPU[e.Port]
		switch portKind[e.Port] {
		case "ctrl":
			switch e.Kind {
			case monitor.Recvd:
				if _, ok := e.Msg.(*pmcpkg.PageMigrationReqToPMC); ok && accepted[g] > responded[g] {
					probes["request_while_busy"]++
				}
			case monitor.RetrieveIn:
				if _, ok := e.Msg.(*pmcpkg.PageMigrationReqToPMC); ok {
					if accepted[g] > responded[g] {
						// a second request taken while one is in progress is legal only
						// if nothing gets lost; the completion count decides
						probes["accepted_while_busy"]++
					}
					k := accepted[g]
					accepted[g]++
					if k < len(perPMC[g]) {
						pulling[perPMC[g][k].src]++
						if pulling[perPMC[g][k].src] > 1 {
							opt.Note("concurrent-pulls-from-one-source")
							probes["concurrent_pull_from_one_source"]++
						}
					}
				}
			case monitor.Send:
				if _, ok := e.Msg.(*pmcpkg.PageMigrationRspFromPMC); !ok {
					fail("R3", "bad-control-message", "%T sent on PMC %d control port", e.Msg, g)
					return
				}
				k := responded[g]
				responded[g]++
				if k >= len(perPMC[g]) {
					fail("R3", "completion-without-request", "PMC %d reported %d completions for %d requests", g, responded[g], len(perPMC[g]))
					return
				}
				if responded[g] > accepted[g] {
					fail("R3", "completion-before-request", "PMC %d reported completion %d having accepted %d requests", g, responded[g], accepted[g])
					return
				}
				if e.Msg.Meta().Dst != ctrls[g].Port.AsRemote() {
					fail("R3", "completion-wrong-destination", "PMC %d completion addressed to %s", g, e.Msg.Meta().Dst)
				}
				m := perPMC[g][k]
				m.completed = true
				totalCompleted++
				pulling[m.src]--
				checkPage(m)
			}
		case "mem":
			if e.Kind == monitor.Recvd {
				if rsp, ok := e.Msg.(mem.AccessRsp); ok {
					for k := range mems[g].Arrivals {
						if mems[g].Arrivals[k].Req.Meta().ID == rsp.GetRspTo() {
							if k < lastArr[g] {
								probes["memory_answered_out_of_order"]++
							}
							if k > lastArr[g] {
								lastArr[g] = k
							}
							break
						}
					}
				}
			}
		}
	}

	opt.Describe(map[string]any{"config": c, "swarm": r.Swarm})
	end := r.Run()

	res := harness.Result{
		ConfigDigest: r.ConfigDigest(), OrderDigest: r.Rec.Digest(),
		Events: r.Eng.Stats.Events, SimTime: float64(r.Eng.CurrentTime()),
		Faults: r.Faults(), Probes: probes,
	}
	res.Nontrivial = rig.AnyFault(res.Faults) && totalCompleted > 0
	concurrentSeen := probes["concurrent_pull_from_one_source"] > 0

	if viol == nil {
		if mr := r.Misrouted(); len(mr) > 0 {
			fail("R3", "misrouted", "message to an unknown port: %s", mr[0])
		}
	}
	if viol == nil {
		if end == "event-cap" {
			res.Inconclusive = "event-cap"
		} else {
			for _, m := range migs {
				if !m.sent {
					fail("LIVE", "request-never-sent", "migration %d could not be sent to PMC %d; end=%q", m.idx, m.dst, end)
					break
				}
				if !m.completed {
					fail("LIVE", "migration-never-completed", "migration %d (PMC %d <- PMC %d, %d bytes) never reported complete (PMC accepted %d, completed %d); end=%q", m.idx, m.dst, m.src, m.size, accepted[m.dst], responded[m.dst], end)
					break
				}
			}
		}
	}
	if viol == nil && res.Inconclusive == "" {
		// R1 again at the end, R2: nothing else changed anywhere
		for _, m := range migs {
			checkPage(m)
		}
		for g := 0; g < n && viol == nil; g++ {
			var addrs []uint64
			for a := range mems[g].Storage {
				addrs = append(addrs, a)
			}
			sort.Slice(addrs, func(i, j int) bool { return addrs[i] < addrs[j] })
			for _, a := range addrs {
				inside := false
				for _, m := range perPMC[g] {
					if a >= m.writeTo && a < m.writeTo+m.size {
						inside = true
						break
					}
				}
				if !inside {
					fail("R2", "unrelated-byte-written", "memory of PMC %d: byte %#x was written but belongs to no migration destination", g, a)
					break
				}
			}
		}
	}
	if viol != nil {
		res.Rule, res.Signature, res.Detail = viol.Rule, viol.Signature, viol.Detail
		if concurrentSeen {
			res.Signature += "/concurrent-pulls-from-one-source"
		}
	}
	if opt.Verbose || res.Failed() {
		var ds []string
		for _, m := range migs {
			ds = append(ds, fmt.Sprintf("#%d PMC%d<-PMC%d read=%#x write=%#x size=%d", m.idx, m.dst, m.src, m.readFrom, m.writeTo, m.size))
		}
		res.Sample = map[string]any{"config": c, "swarm": r.Swarm, "migrations": ds, "completed": totalCompleted, "events": res.Events, "end": end}
	}
	if res.Failed() {
		res.Log = r.Rec.Dump(80, nil)
	}
	return res
}
