package c19

import (
	"fmt"
	"strings"

	"github.com/sarchlab/akita/v4/mem/cache"
	"github.com/sarchlab/akita/v4/mem/mem"
	"github.com/sarchlab/akita/v4/mem/vm"
	"github.com/sarchlab/akita/v4/mem/vm/tlb"
	"github.com/sarchlab/akita/v4/sim"
	"github.com/sarchlab/mgpusim/v4/amd/protocol"
	"github.com/sarchlab/mgpusim/v4/amd/timing/cp"
	"github.com/sarchlab/mgpusim/v4/amd/timing/pagemigrationcontroller"
	"github.com/sarchlab/mgpusim/v4/amd/timing/rdma"

	"verif/dsim/choice"
	"verif/dsim/harness"
	"verif/dsim/monitor"
	"verif/dsim/rig"
	"verif/dsim/stubs"
)

// CPHandshake is part (c) of C19: the handshake of part (b) with the real
// command processor (cp.ctrlMiddleware) of every GPU between the real driver
// and stub compute units, address translators, caches, TLBs, RDMA engine and
// page migration controller.
type CPHandshake struct{}

// ID implements harness.Harness.
func (CPHandshake) ID() string { return "C19" }

// Version implements harness.Harness.
func (CPHandshake) Version() string { return "c19-cpctrl-v3" }

// Runs implements harness.Harness.
func (CPHandshake) Runs(tier string) int {
	if tier == "thorough" {
		return 100000
	}
	return 4000
}

// Meta implements harness.Harness.
func (CPHandshake) Meta() harness.Meta {
	return harness.Meta{
		Rule: "part (c), command-processor side of the handshake: the run of part (b) (real amd/driver.Driver, real akita mmu.Comp, scripted L2 TLBs) with, per GPU, the real amd/timing/cp.CommandProcessor in place of the protocol stub. Behind each command processor: 1-6 stub compute units, 1-4 address translators, 0-3 L1V / L1S / L1I caches, 1-3 L2 caches, 1-4 TLBs, one RDMA engine and one page migration controller (which performs the requested page copy in the model memory), each a responder with its own drawn latency, acceptance rate, out-of-order service and back-pressure, on fault-injecting links. " +
			"Oracle per command processor over its port history, in addition to every rule of part (b): RDMA drain / restart commands are forwarded once each and acknowledged to the driver only after the RDMA engine answered; a shootdown runs compute-unit pipeline flush -> address-translator discard -> cache flush (invalidating) -> TLB flush (the command's process and virtual addresses) with every component of a wave addressed exactly once and answering exactly once (a message is routed by the destination it carries when the connection takes it), no message of a wave before every answer of the previous wave was delivered, and exactly one completion to the driver after the last TLB answered; a page migration request reaches the migration controller once with the driver's source, destination, size and remote controller port, and its completion goes to the driver once, after the controller answered; a GPU restart runs caches -> TLBs -> address translators -> compute units in the same manner and answers once; at quiescence nothing is half done. " +
			"non-trivial = a fault fired or a tie was reordered and at least one migration completed; distinct = distinct (configuration digest, port-event-order digest)",
		RealComponents: []string{"amd/timing/cp.CommandProcessor (ctrlMiddleware: RDMA drain/restart, shootdown, page-migration forwarding, GPU restart)", "amd/driver.Driver (migration state machine, allocator)", "akita mmu.Comp", "akita vm.PageTable", "akita sim.Port"},
		StubComponents: []string{"compute units, address translators, caches, TLBs, RDMA engines, page migration controllers (protocol responders; the controller copies the page in a model memory)", "L2 TLBs sending translation requests (scripted requesters)", "engine (SeededEngine)", "connections (FaultyConn)"},
		Assumptions: []string{
			"links are reliable and FIFO per pair",
			"every stub component answers each control message exactly once (what the real components do)",
			"no kernel launch or memory copy traffic during the handshake (the dispatcher side of the command processor is C09's subject)",
		},
		FaultKinds:     []string{"tie_reorder", "delay", "cross_reorder", "backpressure", "slow_lower_level", "ooo_response"},
		ExpectedProbes: []string{"allocation_during_migration_window", "migration_completed", "cp_shootdown_completed", "cp_restart_completed", "cp_migration_forwarded", "cp_wave_answers_out_of_order", "cp_second_shootdown_on_one_gpu", "four_gpus"},
		ShrinkBudget:   300,
	}
}

// Run implements harness.Harness.
func (CPHandshake) Run(ch *choice.Source, opt harness.Options) harness.Result {
	return runHandshake(ch, opt, true)
}

type failFn func(rule, sig, format string, a ...any)

// wave is one fan-out of a control message to every component of a class.
type wave struct {
	kind      string
	targets   map[sim.RemotePort]bool
	sentTo    map[sim.RemotePort]int
	answered  map[sim.RemotePort]int
	nSent     int
	delivered int
	lastFrom  int // index of the target that answered last (out-of-order probe)
}

func (w *wave) complete() bool { return w.nSent == len(w.targets) && w.delivered == len(w.targets) }

type cpOp struct {
	name  string // "shootdown" or "restart"
	waves []*wave
	cmd   sim.Msg
}

// cpOracle checks one command processor's side of the handshake.
type cpOracle struct {
	g      int
	fail   failFn
	probes map[string]uint64

	classes map[string][]sim.RemotePort // component class -> control ports
	order   map[sim.RemotePort]int

	ops         []*cpOp // commands taken from the driver and not yet answered
	shootdowns  int
	drainCmd    int
	drainFwd    int
	drainRspIn  int
	drainRspOut int
	rstCmd      int
	rstFwd      int
	rstRspIn    int
	rstRspOut   int
	migCmds     []*protocol.PageMigrationReqToCP
	migFwd      int
	migRspIn    int
	migRspOut   int
}

func (o *cpOracle) targets(class ...string) map[sim.RemotePort]bool {
	t := map[sim.RemotePort]bool{}
	for _, c := range class {
		for _, p := range o.classes[c] {
			t[p] = true
		}
	}
	return t
}

func (o *cpOracle) newWave(kind string, class ...string) *wave {
	return &wave{kind: kind, targets: o.targets(class...), sentTo: map[sim.RemotePort]int{}, answered: map[sim.RemotePort]int{}, lastFrom: -1}
}

func (o *cpOracle) f(rule, sig, format string, a ...any) {
	o.fail(rule, "cp/"+sig, "CP[%d]: "+format, append([]any{o.g}, a...)...)
}

// waveSend is called when the command processor sends a message of the given
// wave kind to dst.
func (o *cpOracle) waveSend(kind string, dst sim.RemotePort) *cpOp {
	if len(o.ops) == 0 {
		o.f("R4", kind+"-without-command", "%s sent to %s although no shootdown or restart command is being processed", kind, dst)
		return nil
	}
	op := o.ops[0]
	for i, w := range op.waves {
		if w.kind != kind {
			continue
		}
		for _, prev := range op.waves[:i] {
			if !prev.complete() {
				o.f("R4", kind+"-before-"+prev.kind+"-complete", "%s sent to %s while the %s wave has %d of %d sent and %d answered", kind, dst, prev.kind, prev.nSent, len(prev.targets), prev.delivered)
				return nil
			}
		}
		if !w.targets[dst] {
			o.f("R4", kind+"-to-wrong-component", "%s sent to %s, which is not a component of that class", kind, dst)
			return nil
		}
		w.sentTo[dst]++
		w.nSent++
		if w.sentTo[dst] > 1 {
			o.f("R3", kind+"-sent-twice", "%s sent %d times to %s during one %s", kind, w.sentTo[dst], dst, op.name)
			return nil
		}
		return op
	}
	o.f("R4", kind+"-during-"+op.name, "%s sent to %s while the command being processed is a %s", kind, dst, op.name)
	return nil
}

func (o *cpOracle) waveAnswer(kind string, from sim.RemotePort) {
	if len(o.ops) == 0 {
		return
	}
	for _, w := range o.ops[0].waves {
		if w.kind == kind {
			// the answers are the evidence of where the messages really went (a message is routed by the
			// destination it carries when the connection takes it, which may differ from the one it carried
			// when it was queued): every component of the wave answers once
			w.answered[from]++
			if !w.targets[from] {
				o.f("R4", kind+"-answered-by-wrong-component", "%s answered by %s, which is not a component of that class", kind, from)
				return
			}
			if w.answered[from] > 1 {
				o.f("R3", kind+"-reached-one-component-twice", "%s: %s answered %d times during one %s - it received the message of another component of the wave, which therefore never got its own", kind, from, w.answered[from], o.ops[0].name)
				return
			}
			w.delivered++
			if idx, ok := o.order[from]; ok {
				if idx < w.lastFrom {
					o.probes["cp_wave_answers_out_of_order"]++
				}
				w.lastFrom = idx
			}
			return
		}
	}
}

// activeATWave returns the kind of the address-translator wave that is
// currently waiting for answers (the answers themselves are untyped).
func (o *cpOracle) activeATWave() string {
	if len(o.ops) == 0 {
		return ""
	}
	for _, w := range o.ops[0].waves {
		if (w.kind == "at-discard" || w.kind == "at-restart") && w.delivered < w.nSent {
			return w.kind
		}
	}
	return ""
}

func (o *cpOracle) finish(name string) {
	if len(o.ops) == 0 || o.ops[0].name != name {
		o.f("R3", name+"-completion-without-command", "%s completion sent to the driver without such a command in progress", name)
		return
	}
	for _, w := range o.ops[0].waves {
		if !w.complete() {
			o.f("R4", name+"-completed-before-"+w.kind+"-done", "%s completion sent to the driver while the %s wave has %d of %d sent and %d answered", name, w.kind, w.nSent, len(w.targets), w.delivered)
			return
		}
	}
	o.ops = o.ops[1:]
	o.probes["cp_"+name+"_completed"]++
}

func sameU64s(a, b []uint64) bool {
	if len(a) != len(b) {
		return false
	}
	for i := range a {
		if a[i] != b[i] {
			return false
		}
	}
	return true
}

func (o *cpOracle) onEvent(e *monitor.Event) {
	port := e.Port[5:] // after "cp/N/"
	switch port {
	case "drv":
		if e.Kind == monitor.Recvd {
			switch m := e.Msg.(type) {
			case *protocol.RDMADrainCmdFromDriver:
				o.drainCmd++
			case *protocol.RDMARestartCmdFromDriver:
				o.rstCmd++
			case *protocol.PageMigrationReqToCP:
				o.migCmds = append(o.migCmds, m)
			case *protocol.ShootDownCommand:
				o.shootdowns++
				if o.shootdowns == 2 {
					o.probes["cp_second_shootdown_on_one_gpu"]++
				}
				o.ops = append(o.ops, &cpOp{name: "shootdown", cmd: m, waves: []*wave{
					o.newWave("cu-flush", "cu"), o.newWave("at-discard", "at"),
					o.newWave("cache-flush", "l1v", "l1s", "l1i", "l2"), o.newWave("tlb-flush", "tlb")}})
			case *protocol.GPURestartReq:
				o.ops = append(o.ops, &cpOp{name: "restart", cmd: m, waves: []*wave{
					o.newWave("cache-restart", "l1v", "l1s", "l1i", "l2"), o.newWave("tlb-restart", "tlb"),
					o.newWave("at-restart", "at"), o.newWave("cu-restart", "cu")}})
			}
		}
		if e.Kind == monitor.Send {
			switch e.Msg.(type) {
			case *protocol.RDMADrainRspToDriver:
				o.drainRspOut++
				if o.drainRspOut > o.drainRspIn {
					o.f("R4", "drain-acknowledged-before-rdma-drained", "RDMA drain acknowledged to the driver %d times with %d answers from the RDMA engine", o.drainRspOut, o.drainRspIn)
				}
			case *protocol.RDMARestartRspToDriver:
				o.rstRspOut++
				if o.rstRspOut > o.rstRspIn {
					o.f("R4", "rdma-restart-acknowledged-early", "RDMA restart acknowledged to the driver %d times with %d answers from the RDMA engine", o.rstRspOut, o.rstRspIn)
				}
			case *protocol.PageMigrationRspToDriver:
				o.migRspOut++
				if o.migRspOut > o.migRspIn {
					o.f("R3", "migration-completion-before-controller-answered", "page migration completion number %d sent to the driver with %d answers from the migration controller", o.migRspOut, o.migRspIn)
				}
			case *protocol.ShootDownCompleteRsp:
				o.finish("shootdown")
			case *protocol.GPURestartRsp:
				o.finish("restart")
			}
		}
	case "rdma":
		if e.Kind == monitor.Send {
			switch e.Msg.(type) {
			case *rdma.DrainReq:
				o.drainFwd++
				if o.drainFwd > o.drainCmd {
					o.f("R3", "rdma-drain-forwarded-twice", "RDMA engine asked to drain %d times for %d commands", o.drainFwd, o.drainCmd)
				}
			case *rdma.RestartReq:
				o.rstFwd++
				if o.rstFwd > o.rstCmd {
					o.f("R3", "rdma-restart-forwarded-twice", "RDMA engine asked to restart %d times for %d commands", o.rstFwd, o.rstCmd)
				}
			}
		}
		if e.Kind == monitor.Recvd {
			switch e.Msg.(type) {
			case *rdma.DrainRsp:
				o.drainRspIn++
			case *rdma.RestartRsp:
				o.rstRspIn++
			}
		}
	case "pmc":
		if e.Kind == monitor.Send {
			if m, ok := e.Msg.(*pagemigrationcontroller.PageMigrationReqToPMC); ok {
				o.migFwd++
				if o.migFwd > len(o.migCmds) {
					o.f("R3", "migration-forwarded-twice", "migration controller asked %d times for %d requests of the driver", o.migFwd, len(o.migCmds))
					return
				}
				c := o.migCmds[o.migFwd-1]
				if m.ToReadFromPhysicalAddress != c.ToReadFromPhysicalAddress || m.ToWriteToPhysicalAddress != c.ToWriteToPhysicalAddress ||
					m.PageSize != c.PageSize || m.PMCPortOfRemoteGPU != c.DestinationPMCPort.AsRemote() {
					o.f("R1", "migration-forwarded-with-other-fields", "driver asked read %#x write %#x size %d from %s; controller is asked read %#x write %#x size %d from %s",
						c.ToReadFromPhysicalAddress, c.ToWriteToPhysicalAddress, c.PageSize, c.DestinationPMCPort.AsRemote(),
						m.ToReadFromPhysicalAddress, m.ToWriteToPhysicalAddress, m.PageSize, m.PMCPortOfRemoteGPU)
					return
				}
				o.probes["cp_migration_forwarded"]++
			}
		}
		if e.Kind == monitor.Recvd {
			if _, ok := e.Msg.(*pagemigrationcontroller.PageMigrationRspFromPMC); ok {
				o.migRspIn++
			}
		}
	case "cus":
		if e.Kind == monitor.Send {
			switch e.Msg.(type) {
			case *protocol.CUPipelineFlushReq:
				o.waveSend("cu-flush", e.Msg.Meta().Dst)
			case *protocol.CUPipelineRestartReq:
				o.waveSend("cu-restart", e.Msg.Meta().Dst)
			default:
				o.f("R3", "unexpected-message-to-cu", "%T sent to a compute unit during the handshake", e.Msg)
			}
		}
		if e.Kind == monitor.Recvd {
			switch e.Msg.(type) {
			case *protocol.CUPipelineFlushRsp:
				o.waveAnswer("cu-flush", e.Msg.Meta().Src)
			case *protocol.CUPipelineRestartRsp:
				o.waveAnswer("cu-restart", e.Msg.Meta().Src)
			}
		}
	case "ats":
		if e.Kind == monitor.Send {
			m, ok := e.Msg.(*mem.ControlMsg)
			switch {
			case ok && m.DiscardTransations && !m.Restart:
				o.waveSend("at-discard", m.Dst)
			case ok && m.Restart && !m.DiscardTransations:
				o.waveSend("at-restart", m.Dst)
			default:
				o.f("R3", "unexpected-message-to-address-translator", "%T %+v sent to an address translator", e.Msg, e.Msg)
			}
		}
		if e.Kind == monitor.Recvd {
			if k := o.activeATWave(); k != "" {
				o.waveAnswer(k, e.Msg.Meta().Src)
			}
		}
	case "caches":
		if e.Kind == monitor.Send {
			switch m := e.Msg.(type) {
			case *cache.FlushReq:
				if op := o.waveSend("cache-flush", m.Dst); op != nil && !m.InvalidateAllCachelines {
					o.f("R2", "shootdown-cache-flush-keeps-lines", "cache %s is flushed for a shootdown without invalidating its lines: a line of the page's old frame would survive the migration", m.Dst)
				}
			case *cache.RestartReq:
				o.waveSend("cache-restart", m.Dst)
			default:
				o.f("R3", "unexpected-message-to-cache", "%T sent to a cache", e.Msg)
			}
		}
		if e.Kind == monitor.Recvd {
			switch e.Msg.(type) {
			case *cache.FlushRsp:
				o.waveAnswer("cache-flush", e.Msg.Meta().Src)
			case *cache.RestartRsp:
				o.waveAnswer("cache-restart", e.Msg.Meta().Src)
			}
		}
	case "tlbs":
		if e.Kind == monitor.Send {
			switch m := e.Msg.(type) {
			case *tlb.FlushReq:
				if op := o.waveSend("tlb-flush", m.Dst); op != nil {
					c := op.cmd.(*protocol.ShootDownCommand)
					if m.PID != c.PID || !sameU64s(m.VAddr, c.VAddr) {
						o.f("R2", "tlb-flush-for-other-pages", "shootdown of pid %d pages %#x flushes pid %d pages %#x in TLB %s", c.PID, c.VAddr, m.PID, m.VAddr, m.Dst)
					}
				}
			case *tlb.RestartReq:
				o.waveSend("tlb-restart", m.Dst)
			default:
				o.f("R3", "unexpected-message-to-tlb", "%T sent to a TLB", e.Msg)
			}
		}
		if e.Kind == monitor.Recvd {
			switch e.Msg.(type) {
			case *tlb.FlushRsp:
				o.waveAnswer("tlb-flush", e.Msg.Meta().Src)
			case *tlb.RestartRsp:
				o.waveAnswer("tlb-restart", e.Msg.Meta().Src)
			}
		}
	}
}

// atEnd is called at quiescence.
func (o *cpOracle) atEnd() {
	switch {
	case len(o.ops) > 0:
		op := o.ops[0]
		detail := ""
		for _, w := range op.waves {
			detail += fmt.Sprintf(" %s:%d/%d sent,%d answered", w.kind, w.nSent, len(w.targets), w.delivered)
		}
		o.f("LIVE", op.name+"-never-completed", "%s command never answered:%s", op.name, detail)
	case o.drainFwd != o.drainCmd || o.drainRspOut != o.drainRspIn || o.drainRspIn != o.drainFwd:
		o.f("LIVE", "rdma-drain-unfinished", "drain commands %d forwarded %d answered by RDMA %d acknowledged %d", o.drainCmd, o.drainFwd, o.drainRspIn, o.drainRspOut)
	case o.rstFwd != o.rstCmd || o.rstRspOut != o.rstRspIn || o.rstRspIn != o.rstFwd:
		o.f("LIVE", "rdma-restart-unfinished", "RDMA restart commands %d forwarded %d answered %d acknowledged %d", o.rstCmd, o.rstFwd, o.rstRspIn, o.rstRspOut)
	case o.migFwd != len(o.migCmds) || o.migRspOut != o.migRspIn || o.migRspIn != o.migFwd:
		o.f("LIVE", "migration-unfinished-in-cp", "migration requests %d forwarded %d answered by the controller %d reported %d", len(o.migCmds), o.migFwd, o.migRspIn, o.migRspOut)
	}
}

// buildRealCP creates GPU g's real command processor with stub components on
// every control port and returns it, the port that stands for the GPU's
// migration controller towards other GPUs, and its oracle.
func buildRealCP(r *rig.Rig, ch *choice.Source, g int, driverPort sim.Port, memModel map[uint64][]byte, pageSize uint64,
	fail failFn, probes map[string]uint64, onMigration func()) (*cp.CommandProcessor, sim.Port, *cpOracle) {
	name := fmt.Sprintf("GPU[%d]", g)
	proc := cp.MakeBuilder().WithEngine(r.Eng).WithFreq(r.Freq).WithDriver(driverPort).Build(name + ".CP")
	o := &cpOracle{g: g, fail: fail, probes: probes, classes: map[string][]sim.RemotePort{}, order: map[sim.RemotePort]int{}}

	reply := func(req sim.Msg, rsp sim.Msg) []sim.Msg {
		rsp.Meta().Dst = req.Meta().Src
		rsp.Meta().ID = sim.GetIDGenerator().Generate()
		return []sim.Msg{rsp}
	}
	mkClass := func(class string, n int, hub sim.Port, serve func(m sim.Msg) []sim.Msg) []sim.Port {
		ports := []sim.Port{hub}
		var out []sim.Port
		for i := 0; i < n; i++ {
			cname := fmt.Sprintf("%s.%s[%d]", name, strings.ToUpper(class), i)
			s := r.Responder(cname, 1+ch.Intn(4, "cpc.inbuf"), 1+ch.Intn(4, "cpc.outbuf"), nil)
			s.Serve = func(m sim.Msg, _ uint64) []sim.Msg {
				rsp := serve(m)
				if rsp == nil {
					fail("R3", "cp/unexpected-message-to-"+class, "%s got %T", cname, m)
				}
				return rsp
			}
			o.classes[class] = append(o.classes[class], s.Port.AsRemote())
			o.order[s.Port.AsRemote()] = len(o.order)
			ports = append(ports, s.Port)
			out = append(out, s.Port)
		}
		return out
	}

	// compute units: only their control ports matter to the control middleware
	nCU := 1 + ch.Intn(6, "cp.ncu")
	cuPorts := mkClass("cu", nCU, proc.ToCUs, func(m sim.Msg) []sim.Msg {
		switch m.(type) {
		case *protocol.CUPipelineFlushReq:
			return reply(m, &protocol.CUPipelineFlushRsp{})
		case *protocol.CUPipelineRestartReq:
			return reply(m, &protocol.CUPipelineRestartRsp{})
		}
		return nil
	})
	for _, p := range cuPorts {
		proc.CUs = append(proc.CUs, p.AsRemote())
	}
	r.Conn(name+".ConnCU", append([]sim.Port{proc.ToCUs}, cuPorts...)...)

	nAT := 1 + ch.Intn(4, "cp.nat")
	atPorts := mkClass("at", nAT, proc.ToAddressTranslators, func(m sim.Msg) []sim.Msg {
		if c, ok := m.(*mem.ControlMsg); ok && (c.DiscardTransations || c.Restart) {
			return reply(m, &mem.ControlMsg{NotifyDone: true})
		}
		return nil
	})
	proc.AddressTranslators = atPorts
	r.Conn(name+".ConnAT", append([]sim.Port{proc.ToAddressTranslators}, atPorts...)...)

	serveCache := func(m sim.Msg) []sim.Msg {
		switch q := m.(type) {
		case *cache.FlushReq:
			return reply(m, &cache.FlushRsp{RspTo: q.ID})
		case *cache.RestartReq:
			return reply(m, &cache.RestartRsp{RspTo: q.ID})
		}
		return nil
	}
	proc.L1VCaches = mkClass("l1v", ch.Intn(4, "cp.nl1v"), proc.ToCaches, serveCache)
	proc.L1SCaches = mkClass("l1s", ch.Intn(4, "cp.nl1s"), proc.ToCaches, serveCache)
	proc.L1ICaches = mkClass("l1i", ch.Intn(4, "cp.nl1i"), proc.ToCaches, serveCache)
	proc.L2Caches = mkClass("l2", 1+ch.Intn(3, "cp.nl2"), proc.ToCaches, serveCache)
	cports := []sim.Port{proc.ToCaches}
	for _, l := range [][]sim.Port{proc.L1VCaches, proc.L1SCaches, proc.L1ICaches, proc.L2Caches} {
		cports = append(cports, l...)
	}
	r.Conn(name+".ConnCache", cports...)

	nTLB := 1 + ch.Intn(4, "cp.ntlb")
	proc.TLBs = mkClass("tlb", nTLB, proc.ToTLBs, func(m sim.Msg) []sim.Msg {
		switch m.(type) {
		case *tlb.FlushReq:
			return reply(m, &tlb.FlushRsp{})
		case *tlb.RestartReq:
			return reply(m, &tlb.RestartRsp{})
		}
		return nil
	})
	r.Conn(name+".ConnTLB", append([]sim.Port{proc.ToTLBs}, proc.TLBs...)...)

	rdmaPorts := mkClass("rdma", 1, proc.ToRDMA, func(m sim.Msg) []sim.Msg {
		switch m.(type) {
		case *rdma.DrainReq:
			return reply(m, &rdma.DrainRsp{})
		case *rdma.RestartReq:
			return reply(m, &rdma.RestartRsp{})
		}
		return nil
	})
	proc.RDMA = rdmaPorts[0]
	r.Conn(name+".ConnRDMA", proc.ToRDMA, proc.RDMA)

	pmcPorts := mkClass("pmc", 1, proc.ToPMC, func(m sim.Msg) []sim.Msg {
		req, ok := m.(*pagemigrationcontroller.PageMigrationReqToPMC)
		if !ok {
			return nil
		}
		if onMigration != nil {
			onMigration()
		}
		// the stub controller performs the copy it is asked for
		from, to := req.ToReadFromPhysicalAddress, req.ToWriteToPhysicalAddress
		if req.PageSize != pageSize || from%pageSize != 0 || to%pageSize != 0 {
			fail("R1", "migration-request-not-one-aligned-page", "PageMigrationReqToPMC read %#x write %#x size %d", from, to, req.PageSize)
			return reply(m, &pagemigrationcontroller.PageMigrationRspFromPMC{})
		}
		srcData, ok := memModel[from]
		if !ok {
			fail("R1", "migration-reads-unallocated-page", "PageMigrationReqToPMC reads physical page %#x which holds no page", from)
			srcData = make([]byte, pageSize)
		}
		memModel[to] = append([]byte{}, srcData...)
		return reply(m, &pagemigrationcontroller.PageMigrationRspFromPMC{})
	})
	proc.PMC = pmcPorts[0]
	r.Conn(name+".ConnPMC", proc.ToPMC, proc.PMC)
	r.Mix(name+".components", []int{nCU, nAT, len(proc.L1VCaches), len(proc.L1SCaches), len(proc.L1ICaches), len(proc.L2Caches), nTLB})

	pre := fmt.Sprintf("cp/%d/", g)
	r.Rec.Attach(proc.ToDriver, pre+"drv")
	r.Rec.Attach(proc.ToCUs, pre+"cus")
	r.Rec.Attach(proc.ToAddressTranslators, pre+"ats")
	r.Rec.Attach(proc.ToCaches, pre+"caches")
	r.Rec.Attach(proc.ToTLBs, pre+"tlbs")
	r.Rec.Attach(proc.ToRDMA, pre+"rdma")
	r.Rec.Attach(proc.ToPMC, pre+"pmc")

	// the port other GPUs' controllers would pull from
	remote := sim.NewPort(proc, 1, 1, name+".PMCRemote")
	return proc, remote, o
}

// CPScript is part (d) of C19: one real command processor driven by a scripted
// driver that, unlike the real driver of parts (b) and (c), overlaps what the
// command processor's contract allows to overlap: several shootdown commands
// sent back to back (the command processor must queue them), page migration
// requests sent without waiting for each other, RDMA drain / restart commands
// next to them.
type CPScript struct{}

// ID implements harness.Harness.
func (CPScript) ID() string { return "C19" }

// Version implements harness.Harness.
func (CPScript) Version() string { return "c19-cpscript-v2" }

// Runs implements harness.Harness.
func (CPScript) Runs(tier string) int {
	if tier == "thorough" {
		return 100000
	}
	return 4000
}

// Meta implements harness.Harness.
func (CPScript) Meta() harness.Meta {
	m := CPHandshake{}.Meta()
	m.Rule = "part (d), command processor under a scripted driver: one real amd/timing/cp.CommandProcessor with the stub components of part (c) and a scripted driver playing 1-4 epochs of (RDMA drain; 1-3 shootdown commands for different processes and pages, sent back to back or spaced; 0-3 page migration requests, pipelined or one at a time; GPU restart; RDMA restart), each phase starting when the previous one was answered. " +
		"Oracle: the per-command-processor rules of part (c) - a queued shootdown is served after the one in progress with its own process and pages, every wave addresses every component once, completions only after the last answer - plus: every command of the script answered exactly once, page copies performed with the requested addresses. " +
		"non-trivial = a fault fired or a tie was reordered and a shootdown completed; distinct = distinct (configuration digest, port-event-order digest)"
	m.RealComponents = []string{"amd/timing/cp.CommandProcessor (ctrlMiddleware)", "akita sim.Port"}
	m.StubComponents = append([]string{"driver (scripted requester)"}, m.StubComponents[:1]...)
	m.StubComponents = append(m.StubComponents, "engine (SeededEngine)", "connections (FaultyConn)")
	m.Assumptions = []string{
		"links are reliable and FIFO per pair",
		"every stub component answers each control message exactly once",
		"a GPU restart is only sent when no shootdown is in progress, and a shootdown only when no restart is in progress (the two share the command processor's counters by design)",
	}
	m.ExpectedProbes = []string{"cp_shootdown_completed", "cp_restart_completed", "cp_migration_forwarded", "cp_wave_answers_out_of_order", "cp_shootdown_queued_behind_another", "cp_migrations_pipelined"}
	return m
}

// Run implements harness.Harness.
func (CPScript) Run(ch *choice.Source, opt harness.Options) harness.Result {
	const pageSize = 4096
	r := rig.New(ch, 3_000_000)
	probes := map[string]uint64{}
	var viol *harness.Result
	fail := func(rule, sig, format string, a ...any) {
		if viol == nil {
			viol = &harness.Result{Rule: rule, Signature: sig, Detail: fmt.Sprintf(format, a...)}
		}
	}
	r.Abort = func() bool { return viol != nil }

	drv := r.Requester("Driver", 2+ch.Intn(8, "drv.inbuf"), 2+ch.Intn(8, "drv.outbuf"))
	memModel := map[uint64][]byte{}
	proc, remote, ora := buildRealCP(r, ch, 0, drv.Port, memModel, pageSize, fail, probes, nil)
	r.Conn("ConnDriver", drv.Port, proc.ToDriver)

	// what came back, by type
	got := map[string]int{}
	drv.OnRecv = func(m sim.Msg) { got[fmt.Sprintf("%T", m)]++ }
	want := map[string]int{}
	answered := func(t string, n int) func() bool { return func() bool { return got[t] >= n } }
	type copyT struct{ from, to, seed uint64 }
	var copies []copyT

	nEpoch := 1 + ch.Intn(4, "epochs")
	var gate func() bool
	cycleGap := func() uint64 { return uint64(ch.Intn(6, "gap")) }
	_ = cycleGap
	add := func(m sim.Msg, g func() bool) {
		drv.Add(stubsItem(m, g))
	}
	all := func(gs ...func() bool) func() bool {
		return func() bool {
			for _, g := range gs {
				if g != nil && !g() {
					return false
				}
			}
			return true
		}
	}
	nextPage := uint64(0x10000)
	for e := 0; e < nEpoch; e++ {
		// RDMA drain
		want["*protocol.RDMADrainRspToDriver"]++
		add(protocol.NewRDMADrainCmdFromDriver(drv.Port, proc.ToDriver), gate)
		gate = answered("*protocol.RDMADrainRspToDriver", want["*protocol.RDMADrainRspToDriver"])
		// shootdowns
		nSD := ch.Intn(4, "shootdowns")
		backToBack := ch.Bool(2, 3, "sd.backtoback")
		sdGate := gate
		for i := 0; i < nSD; i++ {
			var va []uint64
			for k := 0; k < 1+ch.Intn(3, "sd.pages"); k++ {
				va = append(va, uint64(0x100000+ch.Intn(64, "sd.vpage")*pageSize))
			}
			cmd := protocol.NewShootdownCommand(drv.Port, proc.ToDriver, va, vmPID(1+ch.Intn(3, "sd.pid")))
			want["*protocol.ShootDownCompleteRsp"]++
			add(cmd, sdGate)
			if !backToBack {
				sdGate = answered("*protocol.ShootDownCompleteRsp", want["*protocol.ShootDownCompleteRsp"])
			} else if i > 0 {
				probes["cp_shootdown_queued_behind_another"] = 1 // sent without waiting; whether it really queued shows in the history
			}
		}
		gate = all(gate, answered("*protocol.ShootDownCompleteRsp", want["*protocol.ShootDownCompleteRsp"]))
		// migrations
		nMig := ch.Intn(4, "migrations")
		pipelined := ch.Bool(1, 2, "mig.pipelined")
		mGate := gate
		for i := 0; i < nMig; i++ {
			c := copyT{from: nextPage, to: nextPage + 0x4000_0000, seed: nextPage * 31}
			nextPage += pageSize
			data := make([]byte, pageSize)
			for k := range data {
				data[k] = pageByte(c.seed, k)
			}
			memModel[c.from] = data
			copies = append(copies, c)
			req := protocol.NewPageMigrationReqToCP(drv.Port, proc.ToDriver)
			req.DestinationPMCPort = remote
			req.ToReadFromPhysicalAddress, req.ToWriteToPhysicalAddress, req.PageSize = c.from, c.to, pageSize
			want["*protocol.PageMigrationRspToDriver"]++
			add(req, mGate)
			if !pipelined {
				mGate = answered("*protocol.PageMigrationRspToDriver", want["*protocol.PageMigrationRspToDriver"])
			} else if i > 0 {
				probes["cp_migrations_pipelined"] = 1
			}
		}
		gate = all(gate, answered("*protocol.PageMigrationRspToDriver", want["*protocol.PageMigrationRspToDriver"]))
		// GPU restart (the real driver sends it to the GPUs it shot down)
		if nSD > 0 || ch.Bool(1, 4, "restart.anyway") {
			want["*protocol.GPURestartRsp"]++
			add(protocol.NewGPURestartReq(drv.Port, proc.ToDriver), gate)
			gate = answered("*protocol.GPURestartRsp", want["*protocol.GPURestartRsp"])
		}
		want["*protocol.RDMARestartRspToDriver"]++
		add(protocol.NewRDMARestartCmdFromDriver(drv.Port, proc.ToDriver), gate)
		gate = answered("*protocol.RDMARestartRspToDriver", want["*protocol.RDMARestartRspToDriver"])
	}
	r.Mix("script", []int{nEpoch, len(copies)})

	r.Rec.OnEvent = func(e *monitor.Event) {
		if viol != nil {
			return
		}
		if len(e.Port) > 3 && e.Port[:3] == "cp/" {
			ora.onEvent(e)
		}
	}
	opt.Describe(map[string]any{"epochs": nEpoch, "swarm": r.Swarm})
	end := r.Run()

	res := harness.Result{
		ConfigDigest: r.ConfigDigest(), OrderDigest: r.Rec.Digest(),
		Events: r.Eng.Stats.Events, SimTime: float64(r.Eng.CurrentTime()),
		Faults: r.Faults(), Probes: probes,
	}
	res.Nontrivial = rig.AnyFault(res.Faults) && probes["cp_shootdown_completed"] > 0
	if viol == nil {
		if mr := r.Misrouted(); len(mr) > 0 {
			fail("R3", "cp/misrouted", "message to an unknown port: %s", mr[0])
		}
	}
	if viol == nil {
		if end == "event-cap" {
			res.Inconclusive = "event-cap"
		} else {
			for t, n := range got {
				if n > want[t] {
					fail("R3", "cp/command-answered-twice", "driver received %d %s for %d commands", n, t, want[t])
				}
			}
			if viol == nil {
				ora.atEnd()
			}
			for _, t := range []string{"*protocol.RDMADrainRspToDriver", "*protocol.ShootDownCompleteRsp", "*protocol.PageMigrationRspToDriver", "*protocol.GPURestartRsp", "*protocol.RDMARestartRspToDriver"} {
				if viol == nil && got[t] < want[t] {
					fail("LIVE", "cp/command-never-answered", "driver received %d of %d %s; %d script items unsent; end=%q", got[t], want[t], t, drv.Remaining(), end)
				}
			}
			for _, c := range copies {
				d := memModel[c.to]
				for k := 0; k < pageSize && viol == nil; k++ {
					if d == nil || d[k] != pageByte(c.seed, k) {
						fail("R1", "cp/page-copy-wrong", "page %#x -> %#x: destination differs at byte %d", c.from, c.to, k)
					}
				}
			}
		}
	}
	if viol != nil {
		res.Rule, res.Signature, res.Detail = viol.Rule, viol.Signature, viol.Detail
	}
	if opt.Verbose || res.Failed() {
		res.Sample = map[string]any{"epochs": nEpoch, "want": want, "got": got, "end": end, "swarm": r.Swarm}
	}
	if res.Failed() {
		res.Log = r.Rec.Dump(80, func(m sim.Msg) string { return fmt.Sprintf("%T", m) })
	}
	return res
}

func stubsItem(m sim.Msg, g func() bool) stubs.ScriptItem { return stubs.ScriptItem{Msg: m, Gate: g} }

func vmPID(n int) vm.PID { return vm.PID(n) }
