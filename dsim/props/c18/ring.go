// Package c18 decides property C18. ring.go is part (b): 2-4 real rdma.Comp
// joined on their outside ports by a fault-injecting connection, each with an
// L1-side requester, an L2-side adversarial memory and a control agent; the
// oracle checks exactly-once routing and the drain handshake on the port
// histories.
package c18

import (
	"fmt"

	"github.com/sarchlab/akita/v4/mem/mem"
	"github.com/sarchlab/akita/v4/sim"
	"github.com/sarchlab/mgpusim/v4/amd/timing/rdma"

	"verif/dsim/choice"
	"verif/dsim/harness"
	"verif/dsim/monitor"
	"verif/dsim/rig"
	"verif/dsim/stubs"
)

// Ring is the RDMA ring harness.
type Ring struct{}

// ID implements harness.Harness.
func (Ring) ID() string { return "C18" }

// Version implements harness.Harness.
func (Ring) Version() string { return "c18-ring-v1" }

// Runs implements harness.Harness.
func (Ring) Runs(tier string) int {
	if tier == "thorough" {
		return 400000
	}
	return 16000
}

// Meta implements harness.Harness.
func (Ring) Meta() harness.Meta {
	return harness.Meta{
		Rule: "part (b), RDMA ring: each run = one seeded (configuration, remote access streams, drain/restart points, schedule, fault sequence): 2-4 real rdma.Comp (buffer size 1-8, four per-cycle widths 1-4 each), " +
			"address ranges per GPU through mem.BankedAddressPortMapper as timingconfig wires them, every GPU's L1 side issuing 3-60 remote reads/writes to the other GPUs, L2 sides answering in drawn order/latency, " +
			"0-2 drain/restart episodes per GPU at drawn instants (biased into the traffic), delayed/stalled/reordered links, same-time events permuted. " +
			"non-trivial = a fault fired or a tie was reordered, and at least one remote access completed; distinct = distinct (configuration digest, port-event-order digest)",
		RealComponents: []string{"amd/timing/rdma.Comp x 2-4 (its own Builder)", "akita mem.BankedAddressPortMapper / SinglePortMapper", "akita sim.Port"},
		StubComponents: []string{"L1-side requesters (scripted)", "L2-side memories (flat byte array, adversarial)", "control agents", "engine (SeededEngine)", "connections (FaultyConn)"},
		Assumptions: []string{
			"links are reliable and FIFO per pair",
			"the control agent follows the driver's protocol: RestartReq only after the DrainRsp of the same GPU",
			"the L1 side only sends addresses owned by another GPU to the RDMA engine (local addresses never reach it in the shipped wiring)",
		},
		FaultKinds:     []string{"tie_reorder", "delay", "cross_reorder", "backpressure", "slow_lower_level", "ooo_response", "tiny_buffers", "drain_restart"},
		ExpectedProbes: []string{"drain_requested_with_traffic_in_flight", "drain_waited", "l2_answered_out_of_order", "traffic_after_restart", "four_gpus"},
		ShrinkBudget:   500,
	}
}

type ringCfg struct {
	GPUs    int
	Buf     []int
	Widths  [][4]int
	NReq    []int
	Drains  []int
	Gap     int
	OneConn bool
}

type access struct {
	idx         int
	from, owner int
	id          string
	isWrite     bool
	addr        uint64
	size        uint64
	data        []byte
	mask        []bool
	sent        bool
	outCount    int // forwarded on from.RequestOutside
	inCount     int // forwarded on owner.DataInside
	replyCount  int // reply on owner.DataOutside
	answers     int // answer on from.RequestInside
	sentAfterRe bool
}

func bg(addr uint64) byte {
	x := addr*0x9e3779b97f4a7c15 + 0xabcdef
	x ^= x >> 30
	return byte(x>>21) | 1
}

// Run implements harness.Harness.
func (Ring) Run(ch *choice.Source, opt harness.Options) harness.Result {
	r := rig.New(ch, 1_000_000)
	c := ringCfg{GPUs: 2 + ch.Intn(3, "gpus"), Gap: ch.Intn(4, "gap"), OneConn: ch.Bool(1, 2, "oneconn")}
	const bank = uint64(1) << 20
	n := c.GPUs
	for g := 0; g < n; g++ {
		c.Buf = append(c.Buf, 1+ch.Intn(8, "buf"))
		c.Widths = append(c.Widths, [4]int{1 + ch.Intn(4, "w0"), 1 + ch.Intn(4, "w1"), 1 + ch.Intn(4, "w2"), 1 + ch.Intn(4, "w3")})
		c.NReq = append(c.NReq, 3+ch.Intn(40, "nreq"))
		c.Drains = append(c.Drains, ch.Pick([]int{5, 3, 2}, "drains"))
	}
	r.Mix("cfg", c)

	remote := mem.NewBankedAddressPortMapper(bank)
	remote.LowModules = append(remote.LowModules, sim.RemotePort("CPU")) // bank 0: the CPU, as in timingconfig
	comps := make([]*rdma.Comp, n)
	l1 := make([]*stubs.Requester, n)
	l2 := make([]*stubs.Memory, n)
	ctrls := make([]*stubs.Requester, n)
	for g := 0; g < n; g++ {
		l2[g] = r.Memory(fmt.Sprintf("L2[%d]", g), 1+ch.Intn(8, "l2.inbuf"), 1+ch.Intn(8, "l2.outbuf"))
		l2[g].Background = bg
		comps[g] = rdma.MakeBuilder().WithEngine(r.Eng).WithFreq(r.Freq).
			WithBufferSize(c.Buf[g]).
			WithIncomingReqPerCycle(c.Widths[g][0]).WithIncomingRspPerCycle(c.Widths[g][1]).
			WithOutgoingReqPerCycle(c.Widths[g][2]).WithOutgoingRspPerCycle(c.Widths[g][3]).
			WithLocalModules(&mem.SinglePortMapper{Port: l2[g].Port.AsRemote()}).
			WithRemoteModules(remote).
			Build(fmt.Sprintf("RDMA[%d]", g))
		remote.LowModules = append(remote.LowModules, comps[g].RDMADataOutside.AsRemote())
		l1[g] = r.Requester(fmt.Sprintf("L1[%d]", g), 1+ch.Intn(8, "l1.inbuf"), 1+ch.Intn(8, "l1.outbuf"))
		ctrls[g] = stubs.NewRequester(fmt.Sprintf("Ctrl[%d]", g), r.Eng, r.Freq, ch, 2, 2)
		r.Kick = append(r.Kick, ctrls[g])
	}
	ownerBase := func(o int) uint64 { return uint64(o+1) * bank }

	// wiring
	var outside []sim.Port
	for g := 0; g < n; g++ {
		outside = append(outside, comps[g].RDMARequestOutside, comps[g].RDMADataOutside)
	}
	if c.OneConn {
		all := append([]sim.Port{}, outside...)
		for g := 0; g < n; g++ {
			all = append(all, comps[g].RDMARequestInside, l1[g].Port, comps[g].RDMADataInside, l2[g].Port, comps[g].CtrlPort, ctrls[g].Port)
		}
		r.Conn("Conn", all...)
	} else {
		r.Conn("Fabric", outside...)
		for g := 0; g < n; g++ {
			r.Conn(fmt.Sprintf("In%d", g), comps[g].RDMARequestInside, l1[g].Port, comps[g].RDMADataInside, l2[g].Port, comps[g].CtrlPort, ctrls[g].Port)
		}
	}
	for g := 0; g < n; g++ {
		r.Rec.Attach(comps[g].RDMARequestInside, fmt.Sprintf("%d.reqIn", g))
		r.Rec.Attach(comps[g].RDMARequestOutside, fmt.Sprintf("%d.reqOut", g))
		r.Rec.Attach(comps[g].RDMADataInside, fmt.Sprintf("%d.dataIn", g))
		r.Rec.Attach(comps[g].RDMADataOutside, fmt.Sprintf("%d.dataOut", g))
		r.Rec.Attach(comps[g].CtrlPort, fmt.Sprintf("%d.ctrl", g))
	}
	portGPU := map[string]int{}
	portKind := map[string]string{}
	for g := 0; g < n; g++ {
		for _, k := range []string{"reqIn", "reqOut", "dataIn", "dataOut", "ctrl"} {
			portGPU[fmt.Sprintf("%d.%s", g, k)] = g
			portKind[fmt.Sprintf("%d.%s", g, k)] = k
		}
	}

	// ---- workload ----
	var accesses []*access
	byID := map[string]*access{}
	byAddr := map[uint64]*access{}
	restarted := make([]int, n) // completed drain/restart episodes per GPU
	maxCycle := uint64(0)
	for g := 0; g < n; g++ {
		cycle := uint64(0)
		for i := 0; i < c.NReq[g]; i++ {
			a := &access{idx: len(accesses), from: g}
			a.owner = (g + 1 + ch.Intn(n-1, "owner")) % n
			a.size = uint64(1 + ch.Intn(64, "size"))
			a.addr = ownerBase(a.owner) + uint64(a.idx)*128 + uint64(ch.Intn(64, "off"))
			a.isWrite = ch.Bool(1, 2, "w?")
			var m sim.Msg
			if a.isWrite {
				a.data = ch.Bytes(int(a.size), "data")
				wb := mem.WriteReqBuilder{}.WithDst(comps[g].RDMARequestInside.AsRemote()).WithAddress(a.addr).WithData(a.data)
				if ch.Bool(1, 2, "mask?") {
					a.mask = make([]bool, a.size)
					mv := ch.Intn(1<<16, "mask")
					for k := range a.mask {
						a.mask[k] = (mv>>(k%16))&1 == 1 || k%5 == 1
					}
					wb = wb.WithDirtyMask(a.mask)
				}
				m = wb.Build()
			} else {
				m = mem.ReadReqBuilder{}.WithDst(comps[g].RDMARequestInside.AsRemote()).WithAddress(a.addr).WithByteSize(a.size).Build()
			}
			a.id = m.Meta().ID
			accesses = append(accesses, a)
			byID[a.id] = a
			byAddr[a.addr] = a
			cycle += uint64(ch.Intn(c.Gap+1, "gap"))
			acc := a
			gg := g
			l1[g].Add(stubs.ScriptItem{NotBefore: cycle, Msg: m, OnSent: func(sim.Msg) {
				acc.sent = true
				acc.sentAfterRe = restarted[gg] > 0
			}})
		}
		if cycle > maxCycle {
			maxCycle = cycle
		}
	}

	// drain / restart scripts
	ctrlState := make([]int, n) // 0 idle, 1 drain sent, 2 drain acked, 3 restart sent
	for g := 0; g < n; g++ {
		gg := g
		last := uint64(0)
		for d := 0; d < c.Drains[g]; d++ {
			at := last + 1 + uint64(ch.Intn(int(maxCycle)+30, "drain.at"))
			last = at
			wait := uint64(1 + ch.Intn(20, "restart.wait"))
			var ackCycle uint64
			dr := rdma.DrainReqBuilder{}.WithDst(comps[g].CtrlPort.AsRemote()).Build()
			rs := rdma.RestartReqBuilder{}.WithDst(comps[g].CtrlPort.AsRemote()).Build()
			ctrls[g].Add(stubs.ScriptItem{NotBefore: at, Msg: dr,
				Gate:   func() bool { return ctrlState[gg] == 0 },
				OnSent: func(sim.Msg) { ctrlState[gg] = 1 }})
			ctrls[g].Add(stubs.ScriptItem{Msg: rs,
				Gate: func() bool {
					if ctrlState[gg] == 2 && ackCycle == 0 {
						ackCycle = r.Cycle()
					}
					return ctrlState[gg] == 2 && r.Cycle() >= ackCycle+wait
				},
				OnSent: func(sim.Msg) { ctrlState[gg] = 3 }})
		}
		ctrls[g].OnRecv = func(m sim.Msg) {
			switch m.(type) {
			case *rdma.DrainRsp:
				if ctrlState[gg] == 1 {
					ctrlState[gg] = 2
				}
			case *rdma.RestartRsp:
				if ctrlState[gg] == 3 {
					ctrlState[gg] = 0
					restarted[gg]++
				}
			}
		}
	}

	// ---- oracle ----
	var viol *harness.Result
	fail := func(rule, sig, format string, a ...any) {
		if viol == nil {
			viol = &harness.Result{Rule: rule, Signature: sig, Detail: fmt.Sprintf(format, a...)}
		}
	}
	r.Abort = func() bool { return viol != nil }
	probes := map[string]uint64{}
	if n == 4 {
		probes["four_gpus"] = 1
	}
	insideOut := make([]int, n)
	outsideIn := make([]int, n)
	drainReqSeen := make([]uint64, n) // cycle the DrainReq was delivered
	drainPending := make([]bool, n)
	completed := 0
	lastArr := make([]int, n)
	for g := range lastArr {
		lastArr[g] = -1
	}

	payloadEq := func(a *access, req mem.AccessReq) string {
		switch q := req.(type) {
		case *mem.ReadReq:
			if a.isWrite {
				return "kind"
			}
			if q.AccessByteSize != a.size {
				return "size"
			}
		case *mem.WriteReq:
			if !a.isWrite {
				return "kind"
			}
			if string(q.Data) != string(a.data) {
				return "data"
			}
			if len(q.DirtyMask) != len(a.mask) {
				return "mask"
			}
			for i := range a.mask {
				if q.DirtyMask[i] != a.mask[i] {
					return "mask"
				}
			}
		}
		return ""
	}

	r.Rec.OnEvent = func(e *monitor.Event) {
		g := portGPU[e.Port]
		switch portKind[e.Port] {
		case "reqOut":
			if e.Kind == monitor.Send {
				req, ok := e.Msg.(mem.AccessReq)
				if !ok {
					fail("R3", "reqout-non-request", "%T sent on GPU %d RequestOutside", e.Msg, g)
					return
				}
				a := byAddr[req.GetAddress()]
				if a == nil {
					fail("R3", "forwarded-address-changed", "GPU %d forwarded address %#x which no access has", g, req.GetAddress())
					return
				}
				if a.from != g {
					fail("R3", "forwarded-by-wrong-gpu", "access %d of GPU %d forwarded by GPU %d", a.idx, a.from, g)
					return
				}
				a.outCount++
				insideOut[g]++
				if a.outCount > 1 {
					fail("R3", "forwarded-out-twice", "access %d forwarded out %d times", a.idx, a.outCount)
				}
				if want := comps[a.owner].RDMADataOutside.AsRemote(); e.Msg.Meta().Dst != want {
					fail("R2", "wrong-owner", "access %d (address %#x owned by GPU %d) forwarded to %s", a.idx, a.addr, a.owner, e.Msg.Meta().Dst)
				}
				if d := payloadEq(a, req); d != "" {
					fail("R3", "payload-altered-outbound/"+d, "access %d forwarded out with altered %s", a.idx, d)
				}
			}
		case "dataIn":
			if e.Kind == monitor.Send {
				req, ok := e.Msg.(mem.AccessReq)
				if !ok {
					fail("R3", "datain-non-request", "%T sent on GPU %d DataInside", e.Msg, g)
					return
				}
				a := byAddr[req.GetAddress()]
				if a == nil {
					fail("R3", "delivered-address-changed", "GPU %d passed address %#x to its L2 which no access has", g, req.GetAddress())
					return
				}
				if a.owner != g {
					fail("R2", "delivered-to-wrong-owner", "access %d owned by GPU %d reached the L2 of GPU %d", a.idx, a.owner, g)
					return
				}
				a.inCount++
				outsideIn[g]++
				if a.inCount > 1 {
					fail("R3", "delivered-twice", "access %d reached the owner's L2 %d times", a.idx, a.inCount)
				}
				if e.Msg.Meta().Dst != l2[g].Port.AsRemote() {
					fail("R2", "wrong-local-module", "access %d passed to %s", a.idx, e.Msg.Meta().Dst)
				}
				if d := payloadEq(a, req); d != "" {
					fail("R3", "payload-altered-inbound/"+d, "access %d reached the owner's L2 with altered %s", a.idx, d)
				}
			}
			if e.Kind == monitor.Recvd {
				if rsp, ok := e.Msg.(mem.AccessRsp); ok {
					for k := range l2[g].Arrivals {
						if l2[g].Arrivals[k].Req.Meta().ID == rsp.GetRspTo() {
							if k < lastArr[g] {
								probes["l2_answered_out_of_order"]++
							}
							if k > lastArr[g] {
								lastArr[g] = k
							}
							break
						}
					}
				}
			}
		case "dataOut":
			if e.Kind == monitor.Send {
				if _, ok := e.Msg.(mem.AccessRsp); !ok {
					fail("R4", "dataout-non-response", "%T sent on GPU %d DataOutside", e.Msg, g)
					return
				}
				outsideIn[g]--
				if outsideIn[g] < 0 {
					fail("R4", "reply-without-request", "GPU %d sent more replies outside than requests it accepted", g)
				}
			}
		case "reqIn":
			if e.Kind == monitor.Send {
				rsp, ok := e.Msg.(mem.AccessRsp)
				if !ok {
					fail("R4", "reqin-non-response", "%T sent on GPU %d RequestInside", e.Msg, g)
					return
				}
				a := byID[rsp.GetRspTo()]
				if a == nil {
					fail("R4", "unknown-respond-to", "GPU %d answered id %q which is no access", g, rsp.GetRspTo())
					return
				}
				if a.from != g {
					fail("R4", "answered-to-wrong-gpu", "access %d of GPU %d answered on GPU %d", a.idx, a.from, g)
					return
				}
				a.answers++
				insideOut[g]--
				if a.answers > 1 {
					fail("R4", "answered-twice", "access %d answered %d times", a.idx, a.answers)
					return
				}
				if e.Msg.Meta().Dst != l1[g].Port.AsRemote() {
					fail("R4", "answer-wrong-destination", "answer for access %d addressed to %s", a.idx, e.Msg.Meta().Dst)
				}
				if a.inCount != 1 {
					fail("R4", "answer-without-owner", "access %d answered but it reached the owner's L2 %d times", a.idx, a.inCount)
					return
				}
				completed++
				if a.sentAfterRe {
					probes["traffic_after_restart"]++
				}
				// data = what the owner's L2 returned
				var arr *stubs.Arrival
				for k := range l2[a.owner].Arrivals {
					if l2[a.owner].Arrivals[k].Req.GetAddress() == a.addr {
						arr = &l2[a.owner].Arrivals[k]
						break
					}
				}
				switch x := e.Msg.(type) {
				case *mem.DataReadyRsp:
					if a.isWrite {
						fail("R4", "wrong-response-type", "write %d answered with data", a.idx)
					} else if arr == nil || string(x.Data) != string(arr.Data) {
						fail("R4", "wrong-data", "read %d: data differ from what the owner's L2 returned", a.idx)
					}
				case *mem.WriteDoneRsp:
					if !a.isWrite {
						fail("R4", "wrong-response-type", "read %d answered with write-done", a.idx)
					}
				}
			}
		case "ctrl":
			switch e.Kind {
			case monitor.Recvd:
				if _, ok := e.Msg.(*rdma.DrainReq); ok {
					drainPending[g] = true
					drainReqSeen[g] = r.Cycle()
					if insideOut[g]+outsideIn[g] > 0 {
						probes["drain_requested_with_traffic_in_flight"]++
					}
				}
			case monitor.Send:
				switch e.Msg.(type) {
				case *rdma.DrainRsp:
					if !drainPending[g] {
						fail("R5", "drain-ack-without-request", "GPU %d acknowledged a drain nobody asked for", g)
						return
					}
					drainPending[g] = false
					if insideOut[g] != 0 || outsideIn[g] != 0 {
						fail("R5", "drain-acked-with-traffic-in-flight", "GPU %d acknowledged the drain with %d outbound and %d inbound remote transactions in flight", g, insideOut[g], outsideIn[g])
					}
					if r.Cycle() > drainReqSeen[g]+1 {
						probes["drain_waited"]++
					}
				case *rdma.RestartRsp:
				default:
					fail("R5", "bad-control-message", "%T sent on GPU %d control port", e.Msg, g)
				}
			}
		}
	}

	opt.Describe(map[string]any{"config": c, "swarm": r.Swarm})
	end := r.Run()

	res := harness.Result{
		ConfigDigest: r.ConfigDigest(), OrderDigest: r.Rec.Digest(),
		Events: r.Eng.Stats.Events, SimTime: float64(r.Eng.CurrentTime()),
		Faults: r.Faults(), Probes: probes,
	}
	for g := 0; g < n; g++ {
		res.Faults["drain_restart"] += uint64(restarted[g])
		if c.Buf[g] == 1 {
			res.Faults["tiny_buffers"]++
		}
	}
	res.Nontrivial = rig.AnyFault(res.Faults) && completed > 0

	if viol == nil {
		if mr := r.Misrouted(); len(mr) > 0 {
			fail("R2", "misrouted", "message to an unknown port: %s", mr[0])
		}
	}
	if viol == nil {
		if end == "event-cap" {
			res.Inconclusive = "event-cap"
		} else {
			for _, a := range accesses {
				if !a.sent {
					fail("LIVE", "access-never-sent", "access %d of GPU %d could not be sent; end=%q ctrl=%v", a.idx, a.from, end, ctrlState)
					break
				}
				if a.answers == 0 {
					fail("LIVE", "access-unanswered", "access %d (GPU %d -> owner %d; out=%d in=%d) never answered; end=%q ctrl=%v", a.idx, a.from, a.owner, a.outCount, a.inCount, end, ctrlState)
					break
				}
			}
			for g := 0; g < n && viol == nil; g++ {
				if ctrlState[g] != 0 || !ctrls[g].Done() {
					fail("LIVE", "drain-handshake-stuck", "GPU %d drain/restart handshake stuck in state %d; end=%q", g, ctrlState[g], end)
				}
			}
		}
	}
	if viol != nil {
		res.Rule, res.Signature, res.Detail = viol.Rule, viol.Signature, viol.Detail
	}
	if opt.Verbose || res.Failed() {
		res.Sample = map[string]any{"config": c, "swarm": r.Swarm, "accesses": len(accesses), "completed": completed, "events": res.Events, "end": end}
	}
	if res.Failed() {
		res.Log = r.Rec.Dump(80, nil)
	}
	return res
}
