// Package c15 decides property C15 (the reorder buffer returns responses in
// request order, exactly once) by simulating the real rob.ReorderBuffer between
// a scripted requester, an adversarial memory stub and a control agent.
package c15

import (
	"fmt"

	"github.com/sarchlab/akita/v4/mem/mem"
	"github.com/sarchlab/akita/v4/mem/vm"
	"github.com/sarchlab/akita/v4/sim"
	"github.com/sarchlab/mgpusim/v4/amd/timing/rob"

	"verif/dsim/choice"
	"verif/dsim/harness"
	"verif/dsim/monitor"
	"verif/dsim/rig"
	"verif/dsim/stubs"
)

// H is the harness.
type H struct{}

// ID implements harness.Harness.
func (H) ID() string { return "C15" }

// Version implements harness.Harness.
func (H) Version() string { return "c15-v1" }

// Runs implements harness.Harness.
func (H) Runs(tier string) int {
	if tier == "thorough" {
		return 600000
	}
	return 24000
}

// Meta implements harness.Harness.
func (H) Meta() harness.Meta {
	return harness.Meta{
		Rule: "each run = one seeded (configuration, workload, schedule, fault sequence): real rob.ReorderBuffer with drawn bufferSize 1-16 and numReqPerCycle 1-4, " +
			"5-200 reads/writes (sizes 1-64 B, masks, several PIDs), 0-2 flush/restart episodes at drawn instants, lower level answering in drawn order/latency, " +
			"faulty connections (delay, cross-pair reorder, stall windows, in-flight caps), requester holding responses back, same-time events permuted. " +
			"non-trivial = at least one fault kind actually fired (or a tie was reordered) and at least one request was answered; distinct = distinct (configuration digest, port-event-order digest) pairs",
		RealComponents: []string{"amd/timing/rob.ReorderBuffer (built by its own Builder)", "akita sim.Port / buffers"},
		StubComponents: []string{"requester (scripted)", "memory (flat byte array, adversarial latency/order)", "control agent", "engine (SeededEngine)", "connections (FaultyConn)"},
		Assumptions: []string{
			"links are reliable and FIFO per (source,destination) pair; no loss/duplication is injected (DESIGN 4.2)",
			"as in the real system, the requester stops issuing after it sent a flush request and resumes after the restart acknowledgement; requests still in flight towards the buffer at that time are classified from the port history (DESIGN C15)",
		},
		FaultKinds:     []string{"tie_reorder", "delay", "cross_reorder", "backpressure", "slow_lower_level", "ooo_response", "tiny_buffers", "flush_restart"},
		ExpectedProbes: []string{"rob_full", "flush_with_outstanding", "flush_with_top_backlog", "bottom_answered_out_of_order", "doomed_requests", "served_after_restart"},
		ShrinkBudget:   500,
	}
}

type cfg struct {
	BufferSize, NumReqPerCycle int
	NReq                       int
	Flushes                    int
	Gap                        int
}

type reqInfo struct {
	idx      int
	id       string
	isWrite  bool
	addr     uint64
	size     uint64
	pid      vm.PID
	data     []byte
	mask     []bool
	sent     bool
	deliv    uint64 // seq of Recvd on Top (0 = not yet)
	accepted uint64 // seq of RetrieveIn on Top
	fwdSeq   uint64
	fwdCount int
	answered uint64
	state    int // 0 none, 1 outstanding, 2 answered, 3 discarded/doomed
	epoch    int
}

func bg(addr uint64) byte {
	x := addr*0x9e3779b97f4a7c15 + 0x1234567
	x ^= x >> 29
	return byte(x>>17) | 1
}

// Run implements harness.Harness.
func (H) Run(ch *choice.Source, opt harness.Options) harness.Result {
	r := rig.New(ch, 1_000_000)
	c := cfg{
		BufferSize:     1 + ch.Intn(16, "rob.bufsize"),
		NumReqPerCycle: 1 + ch.Intn(4, "rob.width"),
		NReq:           5 + ch.Intn(60, "nreq"),
		Flushes:        ch.Pick([]int{5, 3, 2}, "flushes"),
		Gap:            ch.Intn(4, "gap"),
	}
	if ch.Bool(1, 6, "long") {
		c.NReq += ch.Intn(140, "nreq+")
	}
	r.Mix("cfg", c)

	buf := rob.MakeBuilder().WithEngine(r.Eng).WithFreq(r.Freq).
		WithBufferSize(c.BufferSize).WithNumReqPerCycle(c.NumReqPerCycle).Build("ROB")
	top := buf.GetPortByName("Top")
	bottom := buf.GetPortByName("Bottom")
	ctrlPort := buf.GetPortByName("Control")

	reqr := r.Requester("Req", 1+ch.Intn(8, "req.inbuf"), 1+ch.Intn(8, "req.outbuf"))
	memory := r.Memory("Mem", 1+ch.Intn(8, "mem.inbuf"), 1+ch.Intn(8, "mem.outbuf"))
	memory.Background = bg
	ctrl := stubs.NewRequester("Ctrl", r.Eng, r.Freq, ch, 2, 2)
	buf.BottomUnit = memory.Port.AsRemote()
	r.Kick = append(r.Kick, ctrl)

	if ch.Bool(1, 2, "oneconn") {
		r.Conn("Conn", top, reqr.Port, bottom, memory.Port, ctrlPort, ctrl.Port)
	} else {
		r.Conn("ConnTop", top, reqr.Port)
		r.Conn("ConnBottom", bottom, memory.Port)
		r.Conn("ConnCtrl", ctrlPort, ctrl.Port)
	}

	r.Rec.Attach(top, "top")
	r.Rec.Attach(bottom, "bottom")
	r.Rec.Attach(ctrlPort, "ctrl")

	// ---- workload ----
	reqs := make([]*reqInfo, c.NReq)
	byID := map[string]*reqInfo{}
	byAddr := map[uint64]*reqInfo{}
	flushing := false // requester-side view: between sending a flush and receiving the restart ack
	cycle := uint64(0)
	for i := 0; i < c.NReq; i++ {
		ri := &reqInfo{idx: i}
		ri.isWrite = ch.Bool(1, 2, "w?")
		ri.addr = 0x1000 + uint64(i)*8 + uint64(ch.Intn(4, "addr.off"))*0x100000
		ri.size = uint64(1 + ch.Intn(64, "size"))
		ri.pid = vm.PID(1 + ch.Intn(3, "pid"))
		var m sim.Msg
		if ri.isWrite {
			ri.data = ch.Bytes(int(ri.size), "data")
			b := mem.WriteReqBuilder{}.WithDst(top.AsRemote()).WithAddress(ri.addr).WithPID(ri.pid).WithData(ri.data)
			if ch.Bool(1, 2, "mask?") {
				ri.mask = make([]bool, ri.size)
				mv := ch.Intn(1<<16, "mask")
				for k := range ri.mask {
					ri.mask[k] = (mv>>(k%16))&1 == 1 || k%7 == 3
				}
				b = b.WithDirtyMask(ri.mask)
			}
			m = b.Build()
		} else {
			m = mem.ReadReqBuilder{}.WithDst(top.AsRemote()).WithAddress(ri.addr).WithPID(ri.pid).WithByteSize(ri.size).Build()
		}
		ri.id = m.Meta().ID
		reqs[i] = ri
		byID[ri.id] = ri
		byAddr[ri.addr] = ri
		cycle += uint64(ch.Intn(c.Gap+1, "gap"))
		info := ri
		reqr.Add(stubs.ScriptItem{NotBefore: cycle, Msg: m,
			Gate:   func() bool { return !flushing },
			OnSent: func(sim.Msg) { info.sent = true }})
	}

	// flush / restart episodes
	type episode struct {
		discardID, restartID       string
		discardAcked, restartAcked uint64 // seq
	}
	var episodes []*episode
	ctrlState := 0 // 0 idle, 1 discard sent, 2 discard acked, 3 restart sent
	lastFlushCycle := uint64(0)
	for f := 0; f < c.Flushes; f++ {
		ep := &episode{}
		episodes = append(episodes, ep)
		at := lastFlushCycle + 2 + uint64(ch.Intn(int(cycle)+40, "flush.at"))
		lastFlushCycle = at
		wait := uint64(1 + ch.Intn(30, "restart.wait"))
		var ackCycle uint64
		d := mem.ControlMsgBuilder{}.WithDst(ctrlPort.AsRemote()).ToDiscardTransactions().Build()
		ep.discardID = d.ID
		rs := mem.ControlMsgBuilder{}.WithDst(ctrlPort.AsRemote()).ToRestart().Build()
		ep.restartID = rs.ID
		ctrl.Add(stubs.ScriptItem{NotBefore: at, Msg: d,
			Gate:   func() bool { return ctrlState == 0 },
			OnSent: func(sim.Msg) { ctrlState = 1; flushing = true }})
		ctrl.Add(stubs.ScriptItem{Msg: rs,
			Gate: func() bool {
				if ctrlState == 2 && ackCycle == 0 {
					ackCycle = r.Cycle()
				}
				return ctrlState == 2 && r.Cycle() >= ackCycle+wait
			},
			OnSent: func(sim.Msg) { ctrlState = 3 }})
	}
	ctrl.OnRecv = func(m sim.Msg) {
		cm, ok := m.(*mem.ControlMsg)
		if !ok || !cm.NotifyDone {
			return
		}
		switch ctrlState {
		case 1:
			ctrlState = 2
		case 3:
			ctrlState = 0
			flushing = false
			reqr.TickLater()
		}
	}

	// ---- online oracle over the port history ----
	var viol *harness.Result
	fail := func(rule, sig, format string, a ...any) {
		if viol == nil {
			viol = &harness.Result{Rule: rule, Signature: sig, Detail: fmt.Sprintf(format, a...)}
		}
	}
	r.Abort = func() bool { return viol != nil }
	var outstanding []*reqInfo // accepted, unanswered, in acceptance order
	probes := map[string]uint64{}
	epoch := 0
	inFlushWindow := false
	ctrlAcks := 0
	answeredCount := 0
	var lastArrIdx = -1

	r.Rec.OnEvent = func(e *monitor.Event) {
		switch e.Port {
		case "top":
			switch e.Kind {
			case monitor.Recvd:
				if ri := byID[e.Msg.Meta().ID]; ri != nil {
					ri.deliv = e.Seq
					ri.epoch = epoch
					if inFlushWindow {
						probes["delivered_during_flush"]++
					}
				}
			case monitor.RetrieveIn:
				ri := byID[e.Msg.Meta().ID]
				if ri == nil {
					return
				}
				if ri.state == 3 {
					return // drained by restart (doomed)
				}
				ri.accepted = e.Seq
				ri.state = 1
				outstanding = append(outstanding, ri)
				if len(outstanding) > c.BufferSize {
					fail("R5", "occupancy", "%d transactions between acceptance and response, capacity %d", len(outstanding), c.BufferSize)
				}
				if len(outstanding) == c.BufferSize {
					probes["rob_full"]++
				}
			case monitor.Send:
				rsp, ok := e.Msg.(mem.AccessRsp)
				if !ok {
					fail("R3", "top-non-response", "non-response %T sent on Top", e.Msg)
					return
				}
				ri := byID[rsp.GetRspTo()]
				if ri == nil {
					fail("R3", "unknown-respond-to", "response on Top carries RespondTo %q which is no request of the requester", rsp.GetRspTo())
					return
				}
				if e.Msg.Meta().Dst != reqr.Port.AsRemote() {
					fail("R3", "wrong-destination", "response for request %d addressed to %s", ri.idx, e.Msg.Meta().Dst)
				}
				switch ri.state {
				case 2:
					fail("R2", "duplicate-response", "request %d answered twice", ri.idx)
					return
				case 3:
					fail("R6", "response-for-discarded", "request %d was discarded by a flush (or dropped at restart) but a response was sent", ri.idx)
					return
				case 0:
					fail("R2", "response-before-acceptance", "request %d answered before it was accepted", ri.idx)
					return
				}
				if len(outstanding) == 0 || outstanding[0] != ri {
					head := -1
					if len(outstanding) > 0 {
						head = outstanding[0].idx
					}
					fail("R1", "out-of-order", "response for request %d sent while request %d (accepted earlier) is unanswered", ri.idx, head)
					// remove it wherever it is so that the run can continue
					for k, o := range outstanding {
						if o == ri {
							outstanding = append(outstanding[:k], outstanding[k+1:]...)
							break
						}
					}
				} else {
					outstanding = outstanding[1:]
				}
				ri.state = 2
				ri.answered = e.Seq
				answeredCount++
				if ri.epoch > 0 {
					probes["served_after_restart"]++
				}
				// payload: what the memory returned for the duplicate of this request
				var arr *stubs.Arrival
				for k := range memory.Arrivals {
					if memory.Arrivals[k].Req.GetAddress() == ri.addr {
						arr = &memory.Arrivals[k]
						break
					}
				}
				if arr == nil {
					fail("R3", "answer-without-lower-level", "request %d answered but the lower level never saw it", ri.idx)
					return
				}
				switch rr := e.Msg.(type) {
				case *mem.DataReadyRsp:
					if ri.isWrite {
						fail("R3", "wrong-response-type", "write request %d answered with data", ri.idx)
					} else if string(rr.Data) != string(arr.Data) {
						fail("R3", "wrong-payload", "read request %d: response data differs from what the lower level returned", ri.idx)
					}
				case *mem.WriteDoneRsp:
					if !ri.isWrite {
						fail("R3", "wrong-response-type", "read request %d answered with write-done", ri.idx)
					}
				}
			}
		case "bottom":
			if e.Kind == monitor.Send {
				req, ok := e.Msg.(mem.AccessReq)
				if !ok {
					fail("R4", "bottom-non-request", "non-request %T sent on Bottom", e.Msg)
					return
				}
				ri := byAddr[req.GetAddress()]
				if ri == nil {
					fail("R4", "forwarded-address", "request forwarded with address %#x which no accepted request has", req.GetAddress())
					return
				}
				ri.fwdCount++
				ri.fwdSeq = e.Seq
				if ri.fwdCount > 1 {
					fail("R4", "forwarded-twice", "request %d forwarded %d times", ri.idx, ri.fwdCount)
				}
				if ri.state >= 2 {
					// (the buffer forwards a request in the same step in which it
					// accepts it, the forward comes first in the port history)
					fail("R4", "forwarded-finished", "request %d forwarded in state %d", ri.idx, ri.state)
				}
				if e.Msg.Meta().Dst != memory.Port.AsRemote() {
					fail("R4", "forwarded-destination", "request %d forwarded to %s", ri.idx, e.Msg.Meta().Dst)
				}
				if req.GetPID() != ri.pid {
					fail("R4", "forwarded-pid", "request %d forwarded with PID %d, was %d", ri.idx, req.GetPID(), ri.pid)
				}
				switch q := req.(type) {
				case *mem.ReadReq:
					if ri.isWrite {
						fail("R4", "forwarded-kind", "write %d forwarded as read", ri.idx)
					} else if q.AccessByteSize != ri.size {
						fail("R4", "forwarded-size", "read %d forwarded with size %d, was %d", ri.idx, q.AccessByteSize, ri.size)
					}
				case *mem.WriteReq:
					if !ri.isWrite {
						fail("R4", "forwarded-kind", "read %d forwarded as write", ri.idx)
					} else {
						if string(q.Data) != string(ri.data) {
							fail("R4", "forwarded-data", "write %d forwarded with different data", ri.idx)
						}
						if !maskEq(q.DirtyMask, ri.mask) {
							fail("R4", "forwarded-mask", "write %d forwarded with different mask", ri.idx)
						}
					}
				}
			}
			if e.Kind == monitor.Recvd {
				// did the lower level answer out of arrival order?
				if rsp, ok := e.Msg.(mem.AccessRsp); ok {
					for k := range memory.Arrivals {
						if memory.Arrivals[k].Req.Meta().ID == rsp.GetRspTo() {
							if k < lastArrIdx {
								probes["bottom_answered_out_of_order"]++
							}
							if k > lastArrIdx {
								lastArrIdx = k
							}
							break
						}
					}
				}
			}
		case "ctrl":
			if e.Kind == monitor.Send {
				cm, ok := e.Msg.(*mem.ControlMsg)
				if !ok || !cm.NotifyDone {
					fail("R6", "bad-control-ack", "unexpected %T on the control port", e.Msg)
					return
				}
				ctrlAcks++
				if ctrlAcks > 2*len(episodes) {
					fail("R6", "extra-control-ack", "more acknowledgements than control requests")
					return
				}
				if ctrlAcks%2 == 1 {
					// discard acknowledged: everything accepted and unanswered is discarded
					if len(outstanding) > 0 {
						probes["flush_with_outstanding"]++
					}
					for _, o := range outstanding {
						o.state = 3
						probes["doomed_requests"]++
					}
					outstanding = nil
					inFlushWindow = true
					ep := episodes[(ctrlAcks-1)/2]
					ep.discardAcked = e.Seq
				} else {
					// restart acknowledged: whatever was delivered to Top before this
					// event and not accepted is dropped by design
					backlog := 0
					outstanding = nil
					for _, ri := range reqs {
						if ri.deliv != 0 && (ri.state == 0 || ri.state == 1) {
							ri.state = 3
							probes["doomed_requests"]++
							backlog++
						}
					}
					if backlog > 0 {
						probes["flush_with_top_backlog"]++
					}
					inFlushWindow = false
					epoch++
					ep := episodes[(ctrlAcks-2)/2]
					ep.restartAcked = e.Seq
				}
			}
		}
	}

	opt.Describe(map[string]any{"config": c, "swarm": r.Swarm})
	end := r.Run()

	res := harness.Result{
		ConfigDigest: r.ConfigDigest(), OrderDigest: r.Rec.Digest(),
		Events: r.Eng.Stats.Events, SimTime: float64(r.Eng.CurrentTime()),
		Faults: r.Faults(), Probes: probes,
	}
	res.Faults["tiny_buffers"] = 0
	if c.BufferSize <= 2 {
		res.Faults["tiny_buffers"] = 1
	}
	res.Faults["flush_restart"] = uint64(ctrlAcks / 2)
	res.Nontrivial = rig.AnyFault(res.Faults) && answeredCount > 0

	if viol == nil {
		if mr := r.Misrouted(); len(mr) > 0 {
			fail("R3", "misrouted", "message to an unknown port: %s", mr[0])
		}
	}
	if viol == nil {
		switch end {
		case "event-cap":
			res.Inconclusive = "event-cap"
		default:
			// quiescence or horizon (both far beyond the last fault): everything
			// that must be served has to be answered by now.
			for _, ri := range reqs {
				if !ri.sent {
					fail("LIVE", "request-never-accepted-by-port", "request %d could not even be sent (end=%q, ctrlState=%d)", ri.idx, end, ctrlState)
					break
				}
				if ri.state == 0 || ri.state == 1 {
					fail("LIVE", "request-unanswered", "request %d (state %d, delivered seq %d) never answered; end=%q", ri.idx, ri.state, ri.deliv, end)
					break
				}
			}
			if viol == nil && (ctrlState != 0 || !ctrl.Done()) {
				fail("LIVE", "control-unacknowledged", "flush/restart handshake did not finish (state %d); end=%q", ctrlState, end)
			}
		}
	}
	if viol != nil {
		res.Rule, res.Signature, res.Detail = viol.Rule, viol.Signature, viol.Detail
	}
	if opt.Verbose || res.Failed() {
		res.Sample = map[string]any{
			"config": c, "swarm": r.Swarm, "requests": c.NReq, "flush_episodes": c.Flushes,
			"answered": answeredCount, "events": res.Events, "end": end,
			"first_requests": describeReqs(reqs, 6),
		}
	}
	if res.Failed() {
		res.Log = r.Rec.Dump(60, describe)
	}
	return res
}

func maskEq(a, b []bool) bool {
	if len(a) != len(b) {
		return false
	}
	for i := range a {
		if a[i] != b[i] {
			return false
		}
	}
	return true
}

func describeReqs(reqs []*reqInfo, n int) []string {
	var out []string
	for i, r := range reqs {
		if i >= n {
			break
		}
		k := "R"
		if r.isWrite {
			k = "W"
		}
		out = append(out, fmt.Sprintf("%s addr=%#x size=%d pid=%d masked=%v", k, r.addr, r.size, r.pid, r.mask != nil))
	}
	return out
}

func describe(m sim.Msg) string {
	switch x := m.(type) {
	case *mem.ReadReq:
		return fmt.Sprintf("ReadReq addr=%#x size=%d", x.Address, x.AccessByteSize)
	case *mem.WriteReq:
		return fmt.Sprintf("WriteReq addr=%#x size=%d", x.Address, len(x.Data))
	case *mem.DataReadyRsp:
		return fmt.Sprintf("DataReady len=%d", len(x.Data))
	case *mem.WriteDoneRsp:
		return "WriteDone"
	case *mem.ControlMsg:
		return fmt.Sprintf("Control discard=%v restart=%v done=%v", x.DiscardTransations, x.Restart, x.NotifyDone)
	}
	return fmt.Sprintf("%T", m)
}
