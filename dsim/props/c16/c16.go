// Package c16 decides property C16 (address translation forwards every access
// faithfully, exactly once) by simulating the real addresstranslator.Comp
// between a scripted requester, an adversarial translation service, one or two
// adversarial memories and a control agent.
package c16

import (
	"fmt"

	"github.com/sarchlab/akita/v4/mem/mem"
	"github.com/sarchlab/akita/v4/mem/vm"
	"github.com/sarchlab/akita/v4/sim"
	"github.com/sarchlab/mgpusim/v4/amd/timing/mem/addresstranslator"

	"verif/dsim/choice"
	"verif/dsim/harness"
	"verif/dsim/monitor"
	"verif/dsim/rig"
	"verif/dsim/stubs"
)

// H is the harness.
type H struct{}

// ID implements harness.Harness.
func (H) ID() string { return "C16" }

// Version implements harness.Harness.
func (H) Version() string { return "c16-v1" }

// Runs implements harness.Harness.
func (H) Runs(tier string) int {
	if tier == "thorough" {
		return 600000
	}
	return 24000
}

// Meta implements harness.Harness.
func (H) Meta() harness.Meta {
	return harness.Meta{
		Rule: "each run = one seeded (configuration, access stream, page table, schedule, fault sequence): real addresstranslator.Comp with drawn numReqPerCycle 1-4 and page size 2^12-2^16, " +
			"5-200 reads/writes (sizes 1-64 B, masks) over 1-5 virtual pages and 1-3 PIDs mapping the same virtual page to different physical pages, bursts to one page (lookup coalescing), " +
			"translation service and 1-2 memories answering in drawn order/latency, 0-2 flush/restart episodes, faulty connections, requester holding responses back, same-time events permuted. " +
			"non-trivial = at least one fault fired or tie reordered, and at least one access was answered; distinct = distinct (configuration digest, port-event-order digest)",
		RealComponents: []string{"amd/timing/mem/addresstranslator.Comp (its own Builder, interleaved or single memory port mapper)", "akita sim.Port", "akita mem.InterleavedAddressPortMapper"},
		StubComponents: []string{"requester (scripted)", "translation service (map-backed, adversarial latency/order)", "memories (flat byte array, adversarial)", "control agent", "engine (SeededEngine)", "connections (FaultyConn)"},
		Assumptions: []string{
			"one page per access (the component's contract): accesses never cross a page boundary",
			"links are reliable and FIFO per pair; the requester pauses between flush request and restart acknowledgement as the compute unit does",
			"translation replies carry a valid page (page faults / migration are outside this property)",
		},
		FaultKinds:     []string{"tie_reorder", "delay", "cross_reorder", "backpressure", "slow_lower_level", "ooo_response", "tiny_buffers", "flush_restart"},
		ExpectedProbes: []string{"coalesced_lookups", "same_vpage_different_pid", "translation_answered_out_of_order", "flush_with_outstanding", "served_after_restart", "two_memories"},
		ShrinkBudget:   500,
	}
}

type cfg struct {
	Width       int
	Log2Page    uint64
	NReq        int
	Pages, PIDs int
	Mems        int
	Flushes     int
	Gap         int
}

type reqInfo struct {
	idx      int
	id       string
	isWrite  bool
	vaddr    uint64
	paddr    uint64 // expected
	size     uint64
	pid      vm.PID
	data     []byte
	mask     []bool
	sent     bool
	deliv    uint64
	state    int // 0 none, 1 accepted/outstanding, 2 answered, 3 discarded/doomed
	fwdCount int
	epoch    int
}

func bg(addr uint64) byte {
	x := addr*0x9e3779b97f4a7c15 + 0x7654321
	x ^= x >> 31
	return byte(x>>19) | 1
}

// Run implements harness.Harness.
func (H) Run(ch *choice.Source, opt harness.Options) harness.Result {
	r := rig.New(ch, 1_000_000)
	c := cfg{
		Width:    1 + ch.Intn(4, "width"),
		Log2Page: 12 + uint64(ch.Intn(5, "log2page")),
		NReq:     5 + ch.Intn(60, "nreq"),
		Pages:    1 + ch.Intn(5, "pages"),
		PIDs:     1 + ch.Intn(3, "pids"),
		Mems:     1 + ch.Intn(2, "mems"),
		Flushes:  ch.Pick([]int{5, 3, 2}, "flushes"),
		Gap:      ch.Intn(4, "gap"),
	}
	if ch.Bool(1, 6, "long") {
		c.NReq += ch.Intn(140, "nreq+")
	}
	r.Mix("cfg", c)
	pageSize := uint64(1) << c.Log2Page

	reqr := r.Requester("Req", 1+ch.Intn(8, "req.inbuf"), 1+ch.Intn(8, "req.outbuf"))

	// page table: (pid, vpage index) -> physical page, all distinct
	type key struct {
		pid vm.PID
		vp  uint64
	}
	pt := map[key]vm.Page{}
	ppn := uint64(3)
	for p := 1; p <= c.PIDs; p++ {
		for v := 0; v < c.Pages; v++ {
			ppn += 1 + uint64(ch.Intn(5, "ppn.step"))
			vbase := (0x100 + uint64(v)*3) * pageSize
			pt[key{vm.PID(p), vbase}] = vm.Page{PID: vm.PID(p), VAddr: vbase, PAddr: ppn * pageSize, PageSize: pageSize, Valid: true, DeviceID: 1}
		}
	}

	var transReqs int
	var lastTransIdx = -1
	transOrder := map[string]int{}
	probes := map[string]uint64{}
	translator := r.Responder("TLB", 1+ch.Intn(8, "tlb.inbuf"), 1+ch.Intn(8, "tlb.outbuf"),
		func(m sim.Msg, _ uint64) []sim.Msg {
			tr, ok := m.(*vm.TranslationReq)
			if !ok {
				harness.Bug("translation stub got %T", m)
			}
			transOrder[tr.ID] = transReqs
			transReqs++
			page, found := pt[key{tr.PID, tr.VAddr}]
			if !found {
				// the component asked for a page nobody accessed: answer with an
				// invalid page far away; the forwarding oracle will flag the result
				page = vm.Page{PID: tr.PID, VAddr: tr.VAddr, PAddr: 0x7f000000000, PageSize: pageSize, Valid: true}
			}
			return []sim.Msg{vm.TranslationRspBuilder{}.WithDst(tr.Src).WithRspTo(tr.ID).WithPage(page).Build()}
		})

	var mems []*stubs.Memory
	var memPorts []sim.RemotePort
	for i := 0; i < c.Mems; i++ {
		m := r.Memory(fmt.Sprintf("Mem%d", i), 1+ch.Intn(8, "mem.inbuf"), 1+ch.Intn(8, "mem.outbuf"))
		m.Background = bg
		mems = append(mems, m)
		memPorts = append(memPorts, m.Port.AsRemote())
	}
	if c.Mems == 2 {
		probes["two_memories"] = 1
	}

	b := addresstranslator.MakeBuilder().WithEngine(r.Eng).WithFreq(r.Freq).
		WithNumReqPerCycle(c.Width).WithLog2PageSize(c.Log2Page).
		WithTranslationProviderMapperType("single").WithTranslationProviders(translator.Port.AsRemote())
	if c.Mems == 1 {
		b = b.WithMemoryProviderType("single").WithMemoryProviders(memPorts...)
	} else {
		b = b.WithMemoryProviderType("interleaved").WithMemoryProviders(memPorts...)
	}
	at := b.Build("AT")
	top := at.GetPortByName("Top")
	bottom := at.GetPortByName("Bottom")
	transPort := at.GetPortByName("Translation")
	ctrlPort := at.GetPortByName("Control")
	// expected memory for a physical address (what the interleaved mapper does)
	ownerOf := func(paddr uint64) sim.RemotePort {
		if c.Mems == 1 {
			return memPorts[0]
		}
		return memPorts[(paddr/pageSize)%uint64(c.Mems)]
	}

	fc := r.NewFlushCtl(ctrlPort, c.Flushes, uint64(c.NReq*(c.Gap+1)/2))

	if ch.Bool(1, 2, "oneconn") {
		ports := []sim.Port{top, reqr.Port, bottom, transPort, translator.Port, ctrlPort, fc.Ctrl.Port}
		for _, m := range mems {
			ports = append(ports, m.Port)
		}
		r.Conn("Conn", ports...)
	} else {
		r.Conn("ConnTop", top, reqr.Port)
		ports := []sim.Port{bottom}
		for _, m := range mems {
			ports = append(ports, m.Port)
		}
		r.Conn("ConnBottom", ports...)
		r.Conn("ConnTrans", transPort, translator.Port)
		r.Conn("ConnCtrl", ctrlPort, fc.Ctrl.Port)
	}
	r.Rec.Attach(top, "top")
	r.Rec.Attach(bottom, "bottom")
	r.Rec.Attach(transPort, "trans")
	r.Rec.Attach(ctrlPort, "ctrl")

	// ---- workload ----
	reqs := make([]*reqInfo, c.NReq)
	byID := map[string]*reqInfo{}
	byPAddr := map[uint64]*reqInfo{}
	cycle := uint64(0)
	curPage, curPID := 0, 1
	sameVPDiffPID := map[uint64]vm.PID{}
	for i := 0; i < c.NReq; i++ {
		ri := &reqInfo{idx: i}
		// bursts: stay on the same page/PID with probability 1/2
		if !ch.Bool(1, 2, "burst") {
			curPage = ch.Intn(c.Pages, "page")
			curPID = 1 + ch.Intn(c.PIDs, "pid")
		}
		ri.pid = vm.PID(curPID)
		vbase := (0x100 + uint64(curPage)*3) * pageSize
		if p, ok := sameVPDiffPID[vbase]; ok && p != ri.pid {
			probes["same_vpage_different_pid"]++
		}
		sameVPDiffPID[vbase] = ri.pid
		// unique offset per request so that every forwarded access is attributable
		off := uint64(i) * 8
		ri.size = uint64(1 + ch.Intn(8, "size"))
		if ch.Bool(1, 3, "big") {
			// larger accesses, still unique start and inside the page
			ri.size = uint64(1 + ch.Intn(64, "size.big"))
		}
		if off+ri.size > pageSize {
			off = pageSize - 64 - uint64(i%8)
		}
		ri.vaddr = vbase + off
		ri.paddr = pt[key{ri.pid, vbase}].PAddr + off
		ri.isWrite = ch.Bool(1, 2, "w?")
		var m sim.Msg
		if ri.isWrite {
			ri.data = ch.Bytes(int(ri.size), "data")
			wb := mem.WriteReqBuilder{}.WithDst(top.AsRemote()).WithAddress(ri.vaddr).WithPID(ri.pid).WithData(ri.data)
			if ch.Bool(1, 2, "mask?") {
				ri.mask = make([]bool, ri.size)
				mv := ch.Intn(1<<16, "mask")
				for k := range ri.mask {
					ri.mask[k] = (mv>>(k%16))&1 == 1 || k%5 == 2
				}
				wb = wb.WithDirtyMask(ri.mask)
			}
			m = wb.Build()
		} else {
			m = mem.ReadReqBuilder{}.WithDst(top.AsRemote()).WithAddress(ri.vaddr).WithPID(ri.pid).WithByteSize(ri.size).Build()
		}
		ri.id = m.Meta().ID
		reqs[i] = ri
		byID[ri.id] = ri
		if other, dup := byPAddr[ri.paddr]; dup {
			harness.Bug("physical address collision between requests %d and %d", other.idx, ri.idx)
		}
		byPAddr[ri.paddr] = ri
		cycle += uint64(ch.Intn(c.Gap+1, "gap"))
		info := ri
		reqr.Add(stubs.ScriptItem{NotBefore: cycle, Msg: m,
			Gate:   func() bool { return !fc.Flushing },
			OnSent: func(sim.Msg) { info.sent = true }})
	}

	// ---- oracle ----
	var viol *harness.Result
	fail := func(rule, sig, format string, a ...any) {
		if viol == nil {
			viol = &harness.Result{Rule: rule, Signature: sig, Detail: fmt.Sprintf(format, a...)}
		}
	}
	r.Abort = func() bool { return viol != nil }
	outstanding := 0
	epoch := 0
	answered := 0
	accepted := 0

	arrivalFor := func(ri *reqInfo) *stubs.Arrival {
		for _, m := range mems {
			for k := range m.Arrivals {
				if m.Arrivals[k].Req.GetAddress() == ri.paddr {
					return &m.Arrivals[k]
				}
			}
		}
		return nil
	}

	r.Rec.OnEvent = func(e *monitor.Event) {
		switch e.Port {
		case "top":
			switch e.Kind {
			case monitor.Recvd:
				if ri := byID[e.Msg.Meta().ID]; ri != nil {
					ri.deliv = e.Seq
					ri.epoch = epoch
				}
			case monitor.RetrieveIn:
				ri := byID[e.Msg.Meta().ID]
				if ri == nil || ri.state == 3 {
					return
				}
				ri.state = 1
				accepted++
				outstanding++
			case monitor.Send:
				rsp, ok := e.Msg.(mem.AccessRsp)
				if !ok {
					fail("R4", "top-non-response", "%T sent on Top", e.Msg)
					return
				}
				ri := byID[rsp.GetRspTo()]
				if ri == nil {
					fail("R4", "unknown-respond-to", "response on Top carries id %q of no access", rsp.GetRspTo())
					return
				}
				if e.Msg.Meta().Dst != reqr.Port.AsRemote() {
					fail("R4", "wrong-destination", "response for access %d addressed to %s", ri.idx, e.Msg.Meta().Dst)
				}
				switch ri.state {
				case 2:
					fail("R4", "duplicate-response", "access %d answered twice", ri.idx)
					return
				case 3:
					fail("R5", "response-after-discard", "access %d was discarded by a flush but a response was sent", ri.idx)
					return
				case 0:
					fail("R4", "response-before-acceptance", "access %d answered before it was accepted", ri.idx)
					return
				}
				ri.state = 2
				outstanding--
				answered++
				if ri.epoch > 0 {
					probes["served_after_restart"]++
				}
				arr := arrivalFor(ri)
				if arr == nil {
					fail("R4", "answer-without-memory", "access %d answered although memory never saw its physical address %#x", ri.idx, ri.paddr)
					return
				}
				switch x := e.Msg.(type) {
				case *mem.DataReadyRsp:
					if ri.isWrite {
						fail("R4", "wrong-response-type", "write %d answered with data", ri.idx)
					} else if string(x.Data) != string(arr.Data) {
						fail("R4", "wrong-data", "read %d: returned data differ from what memory returned", ri.idx)
					}
				case *mem.WriteDoneRsp:
					if !ri.isWrite {
						fail("R4", "wrong-response-type", "read %d answered with write-done", ri.idx)
					}
				}
			}
		case "bottom":
			if e.Kind != monitor.Send {
				return
			}
			req, ok := e.Msg.(mem.AccessReq)
			if !ok {
				fail("R2", "bottom-non-request", "%T sent on Bottom", e.Msg)
				return
			}
			ri := byPAddr[req.GetAddress()]
			if ri == nil {
				// which access could it be? diagnose by content for the message
				fail("R1", "wrong-physical-address", "access forwarded with physical address %#x; no access of this run translates to it (page base of its own PID + page offset)", req.GetAddress())
				return
			}
			ri.fwdCount++
			if ri.fwdCount > 1 {
				fail("R3", "forwarded-twice", "access %d forwarded %d times", ri.idx, ri.fwdCount)
				return
			}
			if ri.state != 1 {
				fail("R3", "forwarded-in-wrong-state", "access %d forwarded in state %d", ri.idx, ri.state)
				return
			}
			if want := ownerOf(ri.paddr); e.Msg.Meta().Dst != want {
				fail("R1", "wrong-memory-port", "access %d (paddr %#x) forwarded to %s, the address belongs to %s", ri.idx, ri.paddr, e.Msg.Meta().Dst, want)
			}
			switch q := req.(type) {
			case *mem.ReadReq:
				if ri.isWrite {
					fail("R2", "kind-changed", "write %d forwarded as read", ri.idx)
				} else if q.AccessByteSize != ri.size {
					fail("R2", "size-changed", "read %d forwarded with size %d, was %d", ri.idx, q.AccessByteSize, ri.size)
				}
			case *mem.WriteReq:
				if !ri.isWrite {
					fail("R2", "kind-changed", "read %d forwarded as write", ri.idx)
				} else {
					if string(q.Data) != string(ri.data) {
						fail("R2", "data-changed", "write %d forwarded with different data", ri.idx)
					}
					if !maskEq(q.DirtyMask, ri.mask) {
						fail("R2", "mask-changed", "write %d forwarded with a different byte mask", ri.idx)
					}
				}
			}
		case "trans":
			if e.Kind == monitor.Recvd {
				if rsp, ok := e.Msg.(*vm.TranslationRsp); ok {
					if k, ok := transOrder[rsp.RespondTo]; ok {
						if k < lastTransIdx {
							probes["translation_answered_out_of_order"]++
						}
						if k > lastTransIdx {
							lastTransIdx = k
						}
					}
				}
			}
		case "ctrl":
			if e.Kind != monitor.Send {
				return
			}
			cm, ok := e.Msg.(*mem.ControlMsg)
			if !ok || !cm.NotifyDone {
				fail("R5", "bad-control-ack", "unexpected %T on the control port", e.Msg)
				return
			}
			switch fc.AckEvent() {
			case "extra":
				fail("R5", "extra-control-ack", "more acknowledgements than control requests")
			case "discard":
				if outstanding > 0 {
					probes["flush_with_outstanding"]++
				}
				for _, ri := range reqs {
					if ri.state == 1 {
						ri.state = 3
					}
				}
				outstanding = 0
			case "restart":
				for _, ri := range reqs {
					if ri.deliv != 0 && (ri.state == 0 || ri.state == 1) {
						ri.state = 3
					}
				}
				outstanding = 0
				epoch++
			}
		}
	}

	opt.Describe(map[string]any{"config": c, "swarm": r.Swarm})
	end := r.Run()

	res := harness.Result{
		ConfigDigest: r.ConfigDigest(), OrderDigest: r.Rec.Digest(),
		Events: r.Eng.Stats.Events, SimTime: float64(r.Eng.CurrentTime()),
		Faults: r.Faults(), Probes: probes,
	}
	if c.Width == 1 {
		res.Faults["tiny_buffers"] = 1
	}
	res.Faults["flush_restart"] = uint64(fc.Completed())
	if transReqs < accepted {
		probes["coalesced_lookups"] = uint64(accepted - transReqs)
	}
	res.Nontrivial = rig.AnyFault(res.Faults) && answered > 0

	if viol == nil {
		if mr := r.Misrouted(); len(mr) > 0 {
			fail("R1", "misrouted", "message to an unknown port: %s", mr[0])
		}
	}
	if viol == nil {
		if end == "event-cap" {
			res.Inconclusive = "event-cap"
		} else {
			for _, ri := range reqs {
				if !ri.sent {
					fail("LIVE", "access-never-sent", "access %d could not be sent (end=%q, ctrl state %d)", ri.idx, end, fc.State())
					break
				}
				if ri.state == 0 || ri.state == 1 {
					fail("LIVE", "access-unanswered", "access %d (state %d, forwarded %d times) never answered; end=%q", ri.idx, ri.state, ri.fwdCount, end)
					break
				}
				if ri.state == 2 && ri.fwdCount != 1 {
					fail("R3", "answered-but-not-forwarded-once", "access %d answered, forwarded %d times", ri.idx, ri.fwdCount)
					break
				}
			}
			if viol == nil && !fc.Done() {
				fail("LIVE", "control-unacknowledged", "flush/restart handshake did not finish (state %d); end=%q", fc.State(), end)
			}
		}
	}
	if viol != nil {
		res.Rule, res.Signature, res.Detail = viol.Rule, viol.Signature, viol.Detail
	}
	if opt.Verbose || res.Failed() {
		res.Sample = map[string]any{
			"config": c, "swarm": r.Swarm, "answered": answered, "translation_requests": transReqs,
			"events": res.Events, "end": end, "first_accesses": describeReqs(reqs, 8),
		}
	}
	if res.Failed() {
		res.Log = r.Rec.Dump(70, describe(byID))
	}
	return res
}

func maskEq(a, b []bool) bool {
	if len(a) != len(b) {
		return false
	}
	for i := range a {
		if a[i] != b[i] {
			return false
		}
	}
	return true
}

func describeReqs(reqs []*reqInfo, n int) []string {
	var out []string
	for i, r := range reqs {
		if i >= n {
			break
		}
		k := "R"
		if r.isWrite {
			k = "W"
		}
		out = append(out, fmt.Sprintf("#%d %s pid=%d vaddr=%#x -> paddr=%#x size=%d masked=%v", r.idx, k, r.pid, r.vaddr, r.paddr, r.size, r.mask != nil))
	}
	return out
}

func describe(byID map[string]*reqInfo) func(m sim.Msg) string {
	name := func(id string) string {
		if ri := byID[id]; ri != nil {
			return fmt.Sprintf("#%d", ri.idx)
		}
		return "?"
	}
	return func(m sim.Msg) string {
		switch x := m.(type) {
		case *mem.ReadReq:
			return fmt.Sprintf("ReadReq %s addr=%#x size=%d pid=%d", name(x.ID), x.Address, x.AccessByteSize, x.PID)
		case *mem.WriteReq:
			return fmt.Sprintf("WriteReq %s addr=%#x size=%d pid=%d", name(x.ID), x.Address, len(x.Data), x.PID)
		case *mem.DataReadyRsp:
			return fmt.Sprintf("DataReady for %s", name(x.RespondTo))
		case *mem.WriteDoneRsp:
			return fmt.Sprintf("WriteDone for %s", name(x.RespondTo))
		case *vm.TranslationReq:
			return fmt.Sprintf("TranslationReq pid=%d vaddr=%#x", x.PID, x.VAddr)
		case *vm.TranslationRsp:
			return fmt.Sprintf("TranslationRsp paddr=%#x", x.Page.PAddr)
		case *mem.ControlMsg:
			return fmt.Sprintf("Control discard=%v restart=%v done=%v", x.DiscardTransations, x.Restart, x.NotifyDone)
		}
		return fmt.Sprintf("%T", m)
	}
}
