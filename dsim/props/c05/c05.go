// Package c05 decides property C05 (simulations are reproducible bit for bit)
// by running one workload on one platform several times, each time in a fresh
// process under a different host schedule of the application, driver and
// engine goroutines (and under different GOMAXPROCS), and comparing the
// observables.
package c05

import (
	"encoding/json"
	"fmt"
	"reflect"
	"sort"
	"strings"

	"verif/dsim/choice"
	"verif/dsim/harness"
)

// H is the parent-side harness; Child runs one simulation.
type H struct {
	Child harness.External
}

// ID implements harness.Harness.
func (H) ID() string { return "C05" }

// Version implements harness.Harness.
func (H) Version() string { return "c05-v3" }

// Runs implements harness.Harness.
func (H) Runs(tier string) int {
	if tier == "thorough" {
		return 12000
	}
	return 200
}

// Meta implements harness.Harness.
func (H) Meta() harness.Meta {
	return harness.Meta{
		Rule: "each run = one seeded workload (the C11 generator: copies on sub-ranges, copy kernels, queued and synchronous, emulation platforms with 1-4 GPUs and the shipped r9nano/mi300a timing platforms with the DMA path) executed 5 times in fresh processes with the event order of the stock SerialEngine (faithful mode): " +
			"once under the canonical host schedule, twice under different drawn host schedules (at every yield point of the real driver threads and between engine events the controller draws which of application thread, runAsync and engine goroutine runs; engine bursts of drawn length), and once more each with the first drawn schedule and the canonical schedule under another GOMAXPROCS (a replay repeats these same-schedule runs 8 more times: a run-to-run difference is not a function of the seed). " +
			"Observables: simulated time at every return of a driver API call, final simulated time, number of engine events, digest of all device buffers, and on timing platforms every row that amd/samples/runner/report.go writes under -report-all (kernel time per driver / command processor, instruction counts, CPI stack and SIMD CPI stack per compute unit via the repository's cu.CPIStackTracer, cache latency and hit/miss step counts, TLB hit/miss counts, RDMA transaction counts and latencies, DRAM transaction counts, SIMD busy time: the same akita tracers on the same components with the same filters; the runner's two package-private tracers are replaced by plain counters), compared bit for bit per group. Oracle: R1 all of these equal for the same host schedule across processes / GOMAXPROCS (counters are compared under R1 only: across host schedules simulated time itself differs, known finding R2a); R2a times and event counts equal across host schedules; R2b data equal across host schedules. " +
			"non-trivial = the drawn schedules differ from the canonical one by at least 2 context switches; distinct = distinct (workload digest, schedule digests)",
		RealComponents: []string{"everything of C11/C12: real driver threads, command processor, DMA engine, memory system, emulation or shipped timing platforms"},
		StubComponents: []string{"engine (SeededEngine in faithful mode: event order identical to sim.SerialEngine)", "goroutine controller (gosched) inside testing/synctest"},
		Assumptions: []string{
			"one application thread drives the simulator (the property's condition)",
			"the parallel-engine clause (functional results identical under any same-time order) is exercised by the tie-permuting runs of C01/C11/C14/C08, not here",
			"Go map iteration order cannot be controlled; the 4 processes per workload sample it",
		},
		FaultKinds:     []string{"host_schedule"},
		ExpectedProbes: []string{"timing_platform", "schedules_with_switches", "gomaxprocs_varied", "reported_counters_compared"},
		PerRunTimeoutS: 600,
		ShrinkBudget:   12,
	}
}

type obs struct {
	Final  float64   `json:"final_time"`
	Times  []float64 `json:"times_at_api_returns"`
	Events uint64    `json:"events"`
	Data   string    `json:"data_digest"`
	// Counters: digest per group of the rows the reporter would write (timing platforms)
	Counters map[string]string `json:"counters"`
}

// diffCounters names the groups of reported counters that differ.
func diffCounters(a, b obs) string {
	var groups []string
	for g, v := range a.Counters {
		if b.Counters[g] != v {
			groups = append(groups, g)
		}
	}
	for g := range b.Counters {
		if _, ok := a.Counters[g]; !ok {
			groups = append(groups, g)
		}
	}
	sort.Strings(groups)
	return strings.Join(groups, ",")
}

func extract(r harness.Result) (obs, int, bool) {
	var o obs
	m, ok := r.Sample.(map[string]any)
	if !ok {
		return o, 0, false
	}
	b, _ := json.Marshal(m["observables"])
	if json.Unmarshal(b, &o) != nil || o.Data == "" {
		return o, 0, false
	}
	sw := 0
	if v, ok := m["switches"].(float64); ok {
		sw = int(v)
	}
	return o, sw, true
}

// Run implements harness.Harness.
func (h H) Run(ch *choice.Source, opt harness.Options) harness.Result {
	w := uint64(ch.Intn(1<<30, "workload")) + 1
	s1 := uint64(ch.Intn(1<<30, "sched1")) + 2
	s2 := uint64(ch.Intn(1<<30, "sched2")) + 2
	procs := []int{1, 4, 16}[ch.Intn(3, "gomaxprocs")]

	type runSpec struct {
		name  string
		sched string
		procs int
	}
	specs := []runSpec{
		{"canonical", "canonical", 0},
		{"schedule-A", fmt.Sprint(s1), 0},
		{"schedule-B", fmt.Sprint(s2), 0},
		{"schedule-A-again", fmt.Sprint(s1), procs},
		{"canonical-again", "canonical", procs},
	}
	if ch.IsReplay() {
		// a run-to-run difference is not a function of the seed: a replay repeats the same-schedule runs
		// several times so that it shows the difference again with high probability
		for i := 0; i < 4; i++ {
			specs = append(specs, runSpec{fmt.Sprintf("schedule-A-again-%d", i+2), fmt.Sprint(s1), []int{1, 4, 16}[i%3]},
				runSpec{fmt.Sprintf("canonical-again-%d", i+2), "canonical", []int{16, 1, 4}[i%3]})
		}
	}
	res := harness.Result{ConfigDigest: w, Probes: map[string]uint64{"gomaxprocs_varied": 1}, Faults: map[string]uint64{}}
	var all []obs
	var switches []int
	for _, sp := range specs {
		cch := choice.New(w)
		r := h.Child.RunJob(cch, harness.Options{Tier: opt.Tier, Verbose: false}, map[string]string{"c05.sched": sp.sched}, sp.procs)
		if r.HarnessBug != "" {
			return harness.Result{HarnessBug: "child " + sp.name + ": " + r.HarnessBug}
		}
		if r.Inconclusive != "" {
			res.Inconclusive = "child-" + r.Inconclusive
			return res
		}
		if r.Failed() {
			// the workload itself failed its own oracle (C11/C12 business): no C05 verdict
			res.Inconclusive = "child-failed-own-oracle:" + r.Rule
			return res
		}
		o, sw, ok := extract(r)
		if !ok {
			return harness.Result{HarnessBug: "child " + sp.name + " returned no observables"}
		}
		all = append(all, o)
		switches = append(switches, sw)
		res.Events += r.Events
		res.SimTime += r.SimTime
		res.OrderDigest = res.OrderDigest*1099511628211 ^ r.OrderDigest
		if r.Probes["dma_path"] > 0 {
			res.Probes["timing_platform"] = 1
		}
		if len(o.Counters) > 0 {
			res.Probes["reported_counters_compared"] = 1
		}
	}
	res.Faults["host_schedule"] = uint64(switches[1] + switches[2])
	if switches[1] >= 2 && switches[2] >= 2 {
		res.Probes["schedules_with_switches"] = 1
		res.Nontrivial = true
	}
	describe := func(i int) string {
		return fmt.Sprintf("%s: final=%.9f events=%d data=%s", specs[i].name, all[i].Final, all[i].Events, all[i].Data)
	}
	diffTimes := func(a, b obs) string {
		if a.Final != b.Final {
			return fmt.Sprintf("final simulated time %.9f vs %.9f", a.Final, b.Final)
		}
		if !reflect.DeepEqual(a.Times, b.Times) {
			for i := range a.Times {
				if i < len(b.Times) && a.Times[i] != b.Times[i] {
					return fmt.Sprintf("simulated time at the return of API call %d: %.9f vs %.9f", i, a.Times[i], b.Times[i])
				}
			}
			return "different number of API returns"
		}
		if a.Events != b.Events {
			return fmt.Sprintf("engine events %d vs %d (same simulated times)", a.Events, b.Events)
		}
		return ""
	}
	// R1: every repetition of a schedule must agree with its first run
	r1, r1c, r1cGroups := "", "", ""
	for i := 3; i < len(specs); i++ {
		ref := 1
		if specs[i].sched == "canonical" {
			ref = 0
		}
		if d := diffCounters(all[ref], all[i]); d != "" && all[ref].Data == all[i].Data && diffTimes(all[ref], all[i]) == "" {
			r1c = fmt.Sprintf("the same workload under the same controlled host schedule reported different counters in two processes (GOMAXPROCS default vs %d) although data, simulated times and event count agree; counter groups that differ: %s", specs[i].procs, d)
			_ = r1cGroups
		}
		if all[ref].Data != all[i].Data || diffTimes(all[ref], all[i]) != "" {
			r1 = fmt.Sprintf("the same workload under the same controlled host schedule gave different observables in two processes (GOMAXPROCS default vs %d): %s | %s", specs[i].procs, describe(ref), describe(i))
			break
		}
	}
	switch {
	case r1 != "":
		res.Rule, res.Signature = "R1", "same-schedule-differs-across-processes"
		res.Detail = r1
		// by this very verdict the event order is not a function of the seed: the replay identity is the seeds
		res.OrderDigest = w*1099511628211 ^ s1*31 ^ s2
	case r1c != "":
		res.Rule, res.Signature = "R1", "reported-counters-differ-across-processes"
		res.Detail = r1c
		res.OrderDigest = w*1099511628211 ^ s1*31 ^ s2
	case all[0].Data != all[1].Data || all[0].Data != all[2].Data:
		res.Rule, res.Signature = "R2b", "device-data-differs-across-host-schedules"
		res.Detail = fmt.Sprintf("device data depends on the host schedule: %s | %s | %s", describe(0), describe(1), describe(2))
	default:
		for _, i := range []int{1, 2} {
			if d := diffTimes(all[0], all[i]); d != "" {
				res.Rule = "R2a"
				res.Signature = "simulated-time-differs-across-host-schedules"
				if all[0].Final == all[i].Final && reflect.DeepEqual(all[0].Times, all[i].Times) {
					res.Signature = "event-count-differs-across-host-schedules"
				}
				res.Detail = fmt.Sprintf("canonical vs %s: %s", specs[i].name, d)
				break
			}
		}
	}
	if opt.Verbose || res.Failed() {
		res.Sample = map[string]any{"workload_seed": w, "schedule_seeds": []uint64{s1, s2}, "gomaxprocs": procs,
			"observables": []string{describe(0), describe(1), describe(2), describe(3), describe(4)}, "switches": switches}
	}
	return res
}
