// Package c14emu is part 2 of property C14: the emulation compute unit
// (amd/emu.ComputeUnit) in a box. The whole-platform part (plat/c14.go) runs
// the timing compute unit; the emulator's barrier handling and work-group
// completion path are reached there only through a dispatcher that never
// pushes back. Here the real emulation CU sits behind a fault-injecting link
// and a dispatcher that is slow to take completion messages.
package c14emu

import (
	"encoding/binary"
	"fmt"

	"github.com/sarchlab/akita/v4/mem/mem"
	"github.com/sarchlab/akita/v4/mem/vm"
	"github.com/sarchlab/akita/v4/sim"
	"github.com/sarchlab/mgpusim/v4/amd/emu"
	"github.com/sarchlab/mgpusim/v4/amd/insts"
	"github.com/sarchlab/mgpusim/v4/amd/kernels"
	"github.com/sarchlab/mgpusim/v4/amd/protocol"

	"verif/dsim/choice"
	"verif/dsim/harness"
	"verif/dsim/monitor"
	"verif/dsim/rig"
	"verif/dsim/simnet"
)

// H is the harness.
type H struct{}

// ID implements harness.Harness.
func (H) ID() string { return "C14" }

// Version implements harness.Harness.
func (H) Version() string { return "c14-emu-v1" }

// Runs implements harness.Harness.
func (H) Runs(tier string) int {
	if tier == "thorough" {
		return 200000
	}
	return 8000
}

// Meta implements harness.Harness.
func (H) Meta() harness.Meta {
	return harness.Meta{
		Rule: "emulation compute unit in a box: each run = one seeded (work-group sequence, program, dispatcher behaviour, fault sequence): the real amd/emu.ComputeUnit (real GCN3 decoder and ALU, storage and page table) receives 1-14 work-groups of 1-8 wavefronts from a stub dispatcher, spread over 1-8 emulation rounds (the emulator runs its queue at whole seconds of simulated time); the program is a drawn sequence of 0-4 s_barrier with scalar filler instructions, behind an s_cbranch_execz that lets wavefronts with an empty EXEC mask end before the first barrier; the dispatcher (1-4 slot buffers) does not take completion messages during drawn windows that begin just before a round's completions arrive and last some cycles or into the following rounds, so that completion messages queue in the CU's one-slot port and further Sends are refused; fault-injecting link. " +
			"Oracle over the CU's instruction hook and port history: R1 no wavefront executes an instruction behind its k-th barrier before every unfinished wavefront of its group has reached its k-th barrier; R2 every work-group is reported complete exactly once, never before its last wavefront executed s_endpgm, and nothing else is reported; LIVE at quiescence every dispatched work-group has been reported. " +
			"non-trivial = a fault fired or a tie was reordered and at least two work-groups ran; distinct = distinct (configuration digest, port-event-order digest)",
		RealComponents: []string{"amd/emu.ComputeUnit (runWG, runWfUntilBarrier, resolveBarrier, handleWGCompleteEvent)", "amd/emu ALU and storage accessor", "amd/insts disassembler", "akita sim.Port"},
		StubComponents: []string{"dispatcher (scripted requester)", "engine (SeededEngine)", "connections (FaultyConn)"},
		Assumptions:    []string{"links are reliable and FIFO per pair"},
		FaultKinds:     []string{"tie_reorder", "delay", "cross_reorder", "backpressure"},
		ExpectedProbes: []string{"emu_dispatcher_stalled", "emu_completion_retried", "emu_barrier_released", "emu_wavefront_ended_before_barrier", "emu_completion_send_refused_or_batched", "emu_two_groups_in_one_round"},
		ShrinkBudget:   300,
	}
}

const (
	sNop     = 0xbf800000
	sEndpgm  = 0xbf810000
	sBarrier = 0xbf8a0000
	sExecz   = 0xbf880000 // s_cbranch_execz simm16 (dwords, relative to the next instruction)
	sMovS4   = 0xbe840080 // s_mov_b32 s4, 0
	codeAddr = 0x1000
)

type wfState struct {
	barriers int
	ended    bool
}

type wgState struct {
	idx      int
	req      *protocol.MapWGReq
	wfs      map[*kernels.Wavefront]*wfState
	sent     bool
	reported int
}

// Run implements harness.Harness.
func (H) Run(ch *choice.Source, opt harness.Options) harness.Result {
	r := rig.New(ch, 2_000_000)
	probes := map[string]uint64{}
	var viol *harness.Result
	fail := func(rule, sig, format string, a ...any) {
		if viol == nil {
			viol = &harness.Result{Rule: rule, Signature: sig, Detail: fmt.Sprintf(format, a...)}
		}
	}
	r.Abort = func() bool { return viol != nil }

	// ---- program ----
	nBarrier := ch.Intn(5, "barriers")
	var words []uint32
	words = append(words, 0) // s_cbranch_execz, patched below
	for b := 0; b < nBarrier; b++ {
		for k := ch.Intn(3, "filler"); k > 0; k-- {
			words = append(words, []uint32{sNop, sMovS4}[ch.Intn(2, "filler.kind")])
		}
		words = append(words, sBarrier)
	}
	for k := ch.Intn(3, "tail"); k > 0; k-- {
		words = append(words, sNop)
	}
	endIdx := len(words)
	words = append(words, sEndpgm, sNop, sNop, sNop)
	words[0] = sExecz | uint32(endIdx-1)
	code := make([]byte, 4*len(words))
	for i, w := range words {
		binary.LittleEndian.PutUint32(code[4*i:], w)
	}
	storage := mem.NewStorage(1 << 20)
	if err := storage.Write(codeAddr, code); err != nil {
		harness.Bug("storage: %v", err)
	}
	const pid = vm.PID(1)
	pt := vm.NewPageTable(12)
	pt.Insert(vm.Page{PID: pid, PAddr: codeAddr, VAddr: codeAddr, PageSize: 4096, Valid: true})
	cu := emu.BuildComputeUnit("CU", r.Eng, insts.NewDisassembler(), pt, 12, storage, nil)
	co := &insts.KernelCodeObject{KernelCodeObjectMeta: &insts.KernelCodeObjectMeta{}, Data: code}

	disp := &dispatcher{ComponentBase: sim.NewComponentBase("Dispatcher"), eng: r.Eng}
	inbuf := 1
	if ch.Bool(1, 2, "disp.inbuf.wide") {
		inbuf = 1 + ch.Intn(4, "disp.inbuf")
	}
	disp.Port = sim.NewPort(disp, inbuf, 1+ch.Intn(4, "disp.outbuf"), "Dispatcher.ToCU")
	// like akita's direct connection, the link does not take a message from a port while the receiver's
	// buffer is full: bound what it holds in flight in every run (the swarm only does so in some)
	r.ConnTweak = func(_ string, cfg *simnet.Config) {
		if cfg.InFlightCap == 0 {
			cfg.InFlightCap = 1
		}
	}
	r.Conn("Conn", disp.Port, cu.ToDispatcher)
	r.Rec.Attach(cu.ToDispatcher, "cu")
	r.Rec.Attach(disp.Port, "disp")
	// The emulator runs its queue at whole seconds of simulated time: a "round" is one second.
	r.Horizon = 1_000_000_000_000
	r.StallLimit = 30_000_000_000
	// a refused completion is retried every cycle: when the dispatcher stays away for a whole round that is
	// 10^9 events; such runs are cut short and counted as inconclusive
	r.Eng.MaxEvents = 150_000

	// ---- work-groups ----
	nWG := 1 + ch.Intn(14, "wgs")
	var wgs []*wgState
	byID := map[string]*wgState{}
	byWG := map[*kernels.WorkGroup]*wgState{}
	nRound := 1 + ch.Intn(8, "rounds")
	perRound := map[int]int{}
	for i := 0; i < nWG; i++ {
		nWf := 1 + ch.Intn(8, "wfs")
		pkt := &kernels.HsaKernelDispatchPacket{
			WorkgroupSizeX: uint16(64 * nWf), WorkgroupSizeY: 1, WorkgroupSizeZ: 1,
			GridSizeX: uint32(64 * nWf * nWG), GridSizeY: 1, GridSizeZ: 1, KernelObject: codeAddr,
		}
		wg := kernels.NewWorkGroup()
		wg.CodeObject, wg.Packet = co, pkt
		wg.SizeX, wg.SizeY, wg.SizeZ = 64*nWf, 1, 1
		wg.CurrSizeX, wg.CurrSizeY, wg.CurrSizeZ = 64*nWf, 1, 1
		wg.IDX = i
		st := &wgState{idx: i, wfs: map[*kernels.Wavefront]*wfState{}}
		b := protocol.MapWGReqBuilder{}.WithSrc(disp.Port.AsRemote()).WithDst(cu.ToDispatcher.AsRemote()).WithPID(pid).WithWG(wg)
		anyLive := false
		for k := 0; k < nWf; k++ {
			wf := kernels.NewWavefront()
			wf.CodeObject, wf.Packet, wf.WG = co, pkt, wg
			wf.FirstWiFlatID = k * 64
			wf.InitExecMask = ^uint64(0)
			// a wavefront without work-items (EXEC = 0) ends before the first barrier
			if nBarrier > 0 && ch.Bool(1, 4, "wf.empty") && (anyLive || k < nWf-1) {
				wf.InitExecMask = 0
				probes["emu_wavefront_ended_before_barrier"]++
			} else {
				anyLive = true
			}
			wg.Wavefronts = append(wg.Wavefronts, wf)
			st.wfs[wf] = &wfState{}
			b = b.AddWf(protocol.WfDispatchLocation{})
		}
		st.req = b.Build()
		byID[st.req.ID] = st
		byWG[wg] = st
		wgs = append(wgs, st)
		// sent during second (round-1), so that it is emulated at the start of second `round`
		round := ch.Intn(nRound, "wg.round")
		perRound[round]++
		if perRound[round] == 2 {
			probes["emu_two_groups_in_one_round"]++
		}
		at := r.Freq.NCyclesLater(1+ch.Intn(2000, "wg.offset"), sim.VTimeInSec(round))
		s := st
		r.Eng.Schedule(&dispEvent{EventBase: sim.NewEventBase(at, disp), send: st.req, onSent: func() { s.sent = true }})
	}
	// the dispatcher does not look at its incoming buffer during drawn windows that start right before a
	// round's completions arrive and last a few cycles, or into the next round(s)
	for round := 1; round <= nRound; round++ {
		if !ch.Bool(1, 2, "stall") {
			continue
		}
		from := r.Freq.ThisTick(sim.VTimeInSec(round) - 1e-6)
		var d sim.VTimeInSec
		if ch.Bool(1, 2, "stall.long") {
			d = sim.VTimeInSec(1+ch.Intn(6, "stall.rounds")) + sim.VTimeInSec(ch.Intn(3000, "stall.extra"))*1e-9
		} else {
			d = 1e-6 + sim.VTimeInSec(1+ch.Intn(400, "stall.cycles"))*1e-9
		}
		r.Eng.Schedule(&dispEvent{EventBase: sim.NewEventBase(from, disp), stall: +1})
		r.Eng.Schedule(&dispEvent{EventBase: sim.NewEventBase(r.Freq.ThisTick(from+d), disp), stall: -1})
		probes["emu_dispatcher_stalled"]++
	}
	r.Mix("cfg", []any{nBarrier, nWG, nRound, words})

	// ---- R1: barrier order on the instruction hook ----
	cu.AcceptHook(hookFn(func(ctx sim.HookCtx) {
		if viol != nil {
			return
		}
		wf, ok := ctx.Item.(*emu.Wavefront)
		inst, ok2 := ctx.Detail.(*insts.Inst)
		if !ok || !ok2 {
			return
		}
		st := byWG[wf.WG]
		if st == nil {
			fail("R2", "emu/instruction-of-unknown-work-group", "instruction executed for a work-group that was never dispatched")
			return
		}
		me := st.wfs[wf.Wavefront]
		if me == nil {
			fail("R2", "emu/instruction-of-unknown-wavefront", "instruction executed for a wavefront that is not part of work-group %d", st.idx)
			return
		}
		if me.ended {
			fail("R2", "emu/instruction-after-endpgm", "work-group %d: a wavefront executes %s after its s_endpgm", st.idx, inst.InstName)
			return
		}
		if me.barriers > 0 {
			for _, o := range st.wfs {
				if o != me && !o.ended && o.barriers < me.barriers {
					fail("R1", "emu/instruction-past-barrier-early", "work-group %d: a wavefront executes %s behind its barrier %d while another unfinished wavefront has reached only %d barriers", st.idx, inst.InstName, me.barriers, o.barriers)
					return
				}
			}
		}
		switch {
		case inst.FormatType == insts.SOPP && inst.Opcode == 10:
			me.barriers++
			if me.barriers == 1 {
				probes["emu_barrier_released"]++
			}
		case inst.FormatType == insts.SOPP && inst.Opcode == 1:
			me.ended = true
		}
	}))

	// ---- R2: completion exactly once ----
	r.Rec.OnEvent = func(e *monitor.Event) {
		if viol != nil || e.Port != "cu" {
			return
		}
		if e.Kind != monitor.Send {
			return
		}
		m, ok := e.Msg.(*protocol.WGCompletionMsg)
		if !ok {
			fail("R2", "emu/unexpected-message-from-cu", "CU sent %T", e.Msg)
			return
		}
		if frac := float64(e.Time) - float64(int64(e.Time)); frac > 3e-9 {
			probes["emu_completion_retried"]++ // sent later than the cycle after the round: an earlier Send was refused
		}
		if len(m.RspTo) > 1 {
			probes["emu_completion_send_refused_or_batched"]++
		}
		for _, id := range m.RspTo {
			st := byID[id]
			if st == nil {
				fail("R2", "emu/completion-for-unknown-work-group", "completion reported for %s, which was never dispatched", id)
				return
			}
			st.reported++
			if st.reported > 1 {
				fail("R2", "emu/work-group-completion-reported-twice", "work-group %d reported complete %d times", st.idx, st.reported)
				return
			}
			for _, w := range st.wfs {
				if !w.ended {
					fail("R2", "emu/work-group-completed-before-last-wavefront-ended", "work-group %d reported complete while a wavefront has not executed s_endpgm", st.idx)
					return
				}
			}
		}
	}

	opt.Describe(map[string]any{"wgs": nWG, "barriers": nBarrier, "swarm": r.Swarm})
	end := r.Run()

	res := harness.Result{
		ConfigDigest: r.ConfigDigest(), OrderDigest: r.Rec.Digest(),
		Events: r.Eng.Stats.Events, SimTime: float64(r.Eng.CurrentTime()),
		Faults: r.Faults(), Probes: probes,
	}
	res.Faults["backpressure"] += probes["emu_dispatcher_stalled"]
	res.Nontrivial = rig.AnyFault(res.Faults) && nWG > 1
	if viol == nil {
		if mr := r.Misrouted(); len(mr) > 0 {
			fail("R2", "emu/misrouted", "message to an unknown port: %s", mr[0])
		}
	}
	if viol == nil {
		if end == "event-cap" {
			res.Inconclusive = "event-cap"
		} else {
			for _, st := range wgs {
				if !st.sent {
					fail("LIVE", "emu/work-group-never-accepted", "work-group %d could not be sent to the CU; end=%q", st.idx, end)
					break
				}
				if st.reported == 0 {
					ended := 0
					for _, w := range st.wfs {
						if w.ended {
							ended++
						}
					}
					fail("LIVE", "emu/work-group-completion-never-reported", "work-group %d (%d of %d wavefronts ended) was never reported complete; end=%q", st.idx, ended, len(st.wfs), end)
					break
				}
			}
		}
	}
	if viol != nil {
		res.Rule, res.Signature, res.Detail = viol.Rule, viol.Signature, viol.Detail
	}
	if opt.Verbose || res.Failed() {
		res.Sample = map[string]any{"work_groups": nWG, "barriers": nBarrier, "program_words": fmt.Sprintf("%08x", words), "end": end, "swarm": r.Swarm}
	}
	if res.Failed() {
		res.Log = r.Rec.Dump(80, func(m sim.Msg) string { return fmt.Sprintf("%T", m) })
	}
	return res
}

// dispatcher is the stub on the other side of the CU's port: it sends the
// work-groups at scheduled times and takes completion messages out of its
// port unless it is in a stall window.
type dispatcher struct {
	*sim.ComponentBase
	Port    sim.Port
	pending []*dispEvent
	stalled int
	eng     sim.Engine
	waking  bool
}

type dispEvent struct {
	*sim.EventBase
	send   *protocol.MapWGReq
	onSent func()
	stall  int
	wake   bool
}

func (d *dispatcher) Handle(e sim.Event) error {
	ev := e.(*dispEvent)
	if ev.wake {
		d.waking = false
		d.trySend()
		d.drain()
		return nil
	}
	if ev.send != nil {
		d.pending = append(d.pending, ev)
		d.trySend()
	}
	if ev.stall != 0 {
		d.stalled += ev.stall
		d.drain()
	}
	return nil
}

func (d *dispatcher) trySend() {
	for len(d.pending) > 0 {
		if err := d.Port.Send(d.pending[0].send); err != nil {
			return
		}
		d.pending[0].onSent()
		d.pending = d.pending[1:]
	}
}

func (d *dispatcher) drain() {
	for d.stalled == 0 && d.Port.RetrieveIncoming() != nil {
	}
}

// wakeLater handles a port notification in an event of its own: akita calls the
// notifications with the port's lock held, so the port must not be used from inside them.
func (d *dispatcher) wakeLater() {
	if d.waking {
		return
	}
	d.waking = true
	d.eng.Schedule(&dispEvent{EventBase: sim.NewEventBase(d.eng.CurrentTime(), d), wake: true})
}

// NotifyRecv implements sim.Component.
func (d *dispatcher) NotifyRecv(sim.Port) { d.wakeLater() }

// NotifyPortFree implements sim.Component.
func (d *dispatcher) NotifyPortFree(sim.Port) { d.wakeLater() }

type hookFn func(ctx sim.HookCtx)

func (f hookFn) Func(ctx sim.HookCtx) { f(ctx) }
