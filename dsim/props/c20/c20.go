// Package c20 decides property C20 (NVIDIA trace-driven simulation conserves
// work and terminates) by running the real nvidia driver / GPU / SM / sub-core
// components, built through their public builders on the seeded engine, on
// generated traces that are serialised to disk and read back by the real
// trace reader.
package c20

import (
	"fmt"
	"io"
	"os"
	"path/filepath"
	"reflect"
	"sort"
	"strings"
	"unsafe"

	"github.com/sarchlab/akita/v4/sim"
	"github.com/sarchlab/mgpusim/v4/nvidia/benchmark"
	"github.com/sarchlab/mgpusim/v4/nvidia/driver"
	"github.com/sarchlab/mgpusim/v4/nvidia/gpu"
	"github.com/sarchlab/mgpusim/v4/nvidia/nvidiaconfig"
	"github.com/sarchlab/mgpusim/v4/nvidia/tracereader"
	"github.com/sirupsen/logrus"

	"verif/dsim/choice"
	"verif/dsim/harness"
	"verif/dsim/monitor"
	"verif/dsim/simengine"
)

// H is the harness.
type H struct{}

// ID implements harness.Harness.
func (H) ID() string { return "C20" }

// Version implements harness.Harness.
func (H) Version() string { return "c20-v1" }

// Runs implements harness.Harness.
func (H) Runs(tier string) int {
	if tier == "thorough" {
		return 300000
	}
	return 12000
}

// Meta implements harness.Harness.
func (H) Meta() harness.Meta {
	return harness.Meta{
		Rule: "each run = one seeded (trace, platform shape, same-time event order): 1-7 kernels x 1-6 thread blocks x 1-6 warps x 0-12 instructions, ragged, with non-memory lines and memory lines in the address-compression forms 0, 1 and 2, " +
			"interleaved Memcpy entries in kernelslist.g; serialised to a scratch trace directory and read back by the real benchmark builder / trace reader; platform: 1-6 devices (one run in 12 uses the A100 shape 108 SMs x 4 sub-cores), 1-8 SMs per device, 1-4 sub-cores per SM, built by the repo's public builders on the seeded engine. " +
			"The schedule space is same-time event order only (every connection is a directconnection created inside the repo's builders) - the trace round trip is input generation rather than simulation. " +
			"non-trivial = at least one tie was reordered and at least one kernel ran; distinct = distinct (trace+shape digest, port-event-order digest)",
		RealComponents: []string{"nvidia/driver.Driver", "nvidia/gpu.GPU", "nvidia/sm.SM", "nvidia/subcore.Subcore", "nvidia/tracereader", "nvidia/benchmark.BenchmarkBuilder", "akita directconnection (created inside the nvidia builders)"},
		StubComponents: []string{"engine (SeededEngine)", "trace generator"},
		Assumptions: []string{
			"unexported work counters are read through reflection at engine stop (read only)",
			"the instruction opcode is not part of the compared structure: the reader deliberately does not parse it (commented out in extractInst)",
		},
		FaultKinds:     []string{"tie_reorder", "config_swarm"},
		ExpectedProbes: []string{"empty_warp", "more_kernels_than_devices", "more_blocks_than_sms", "more_warps_than_subcores", "compress_form_0", "compress_form_1", "compress_form_2", "a100_shape", "five_or_more_devices"},
		ShrinkBudget:   300,
	}
}

type instLine struct {
	PC       int32
	Mask     int64
	Dests    []string
	Opcode   string
	Srcs     []string
	MemWidth int32
	Compress int32
	Addr     int64
	Suffix1  int32
	Suffix2  []int32
	Extra    []int64 // compress form 0: further full addresses (ignored by the reader)
	Imm      int64
}

func (l instLine) text() string {
	var b strings.Builder
	fmt.Fprintf(&b, "%04x %08x %d", l.PC, l.Mask, len(l.Dests))
	for _, d := range l.Dests {
		b.WriteString(" " + d)
	}
	b.WriteString(" " + l.Opcode)
	fmt.Fprintf(&b, " %d", len(l.Srcs))
	for _, s := range l.Srcs {
		b.WriteString(" " + s)
	}
	fmt.Fprintf(&b, " %d", l.MemWidth)
	if l.MemWidth != 0 {
		fmt.Fprintf(&b, " %d 0x%x", l.Compress, l.Addr)
		switch l.Compress {
		case 0:
			for _, a := range l.Extra {
				fmt.Fprintf(&b, " 0x%x", a)
			}
		case 1:
			fmt.Fprintf(&b, " %d", l.Suffix1)
		case 2:
			for _, s := range l.Suffix2 {
				fmt.Fprintf(&b, " %d", s)
			}
		}
	}
	fmt.Fprintf(&b, " %d ", l.Imm)
	return b.String()
}

type warpT struct {
	id    int32
	insts []instLine
}
type blockT struct {
	id    [3]int32
	warps []warpT
}
type kernelT struct {
	name   string
	blocks []blockT
}

type cfg struct {
	Devices, SMs, Subcores int
	Kernels                int
	A100                   bool
	Tie                    bool
}

func field(v any, name string) reflect.Value {
	rv := reflect.ValueOf(v).Elem().FieldByName(name)
	if !rv.IsValid() {
		harness.Bug("field %s not found in %T (layout of the code under test changed)", name, v)
	}
	return reflect.NewAt(rv.Type(), unsafe.Pointer(rv.UnsafeAddr())).Elem()
}

var regs = []string{"R0", "R1", "R2", "R3", "R4", "R5", "R6", "R7", "R9", "R12", "R31", "R255"}
var ops = []string{"MOV", "S2R", "IMAD", "ISETP.GE.AND", "EXIT", "IMAD.WIDE", "FADD", "HFMA2.MMA", "ULDC.64"}

// Run implements harness.Harness.
func (H) Run(ch *choice.Source, opt harness.Options) harness.Result {
	logrus.SetOutput(io.Discard)
	logrus.SetLevel(logrus.PanicLevel)

	c := cfg{Devices: 1 + ch.Intn(3, "devices"), SMs: 1 + ch.Intn(8, "sms"), Subcores: 1 + ch.Intn(4, "subcores"), Tie: ch.Bool(3, 4, "tie")}
	if ch.Bool(1, 4, "manydev") {
		c.Devices = 4 + ch.Intn(3, "devices.many")
	}
	if ch.Intn(12, "a100") == 11 {
		c.A100 = true
		c.SMs, c.Subcores = 108, 4
	}
	probes := map[string]uint64{}
	if c.A100 {
		probes["a100_shape"] = 1
	}
	if c.Devices >= 5 {
		probes["five_or_more_devices"] = 1
	}

	// ---- generate the trace ----
	nK := 1 + ch.Intn(4, "kernels")
	if ch.Bool(1, 3, "manykernels") {
		nK = 3 + ch.Intn(5, "kernels.many")
	}
	c.Kernels = nK
	var ks []kernelT
	totalBlocks, totalWarps, totalInsts := 0, 0, 0
	maxBlocks, maxWarps := 0, 0
	for k := 0; k < nK; k++ {
		kt := kernelT{name: fmt.Sprintf("kernel-%d.traceg", k+1)}
		nb := 1 + ch.Intn(6, "blocks")
		for b := 0; b < nb; b++ {
			bt := blockT{id: [3]int32{int32(b), int32(ch.Intn(2, "by")), 0}}
			nw := 1 + ch.Intn(6, "warps")
			for w := 0; w < nw; w++ {
				wt := warpT{id: int32(w)}
				ni := ch.Intn(13, "insts")
				if ch.Bool(1, 5, "emptywarp") {
					ni = 0
				}
				if ni == 0 {
					probes["empty_warp"]++
				}
				for i := 0; i < ni; i++ {
					l := instLine{PC: int32(i * 16), Mask: int64(ch.Intn(1<<30, "mask")) * 3, Opcode: ops[ch.Intn(len(ops), "op")], Imm: int64(ch.Intn(7, "imm"))}
					for d := ch.Intn(2, "ndest"); d > 0; d-- {
						l.Dests = append(l.Dests, regs[ch.Intn(len(regs), "dreg")])
					}
					for s := ch.Intn(3, "nsrc"); s > 0; s-- {
						l.Srcs = append(l.Srcs, regs[ch.Intn(len(regs), "sreg")])
					}
					if ch.Bool(1, 3, "mem?") {
						l.MemWidth = int32([]int{1, 2, 4, 8, 16}[ch.Intn(5, "memwidth")])
						l.Compress = int32(ch.Intn(3, "compress"))
						l.Addr = 0x7f0000000000 + int64(ch.Intn(1<<28, "addr"))*4
						probes[fmt.Sprintf("compress_form_%d", l.Compress)]++
						switch l.Compress {
						case 0:
							for x := ch.Intn(4, "extra"); x > 0; x-- {
								l.Extra = append(l.Extra, l.Addr+int64(x)*4)
							}
						case 1:
							l.Suffix1 = int32(ch.Intn(64, "stride")) - 8
						case 2:
							for x := 1 + ch.Intn(6, "deltas"); x > 0; x-- {
								l.Suffix2 = append(l.Suffix2, int32(ch.Intn(512, "delta"))-256)
							}
						}
					}
					wt.insts = append(wt.insts, l)
				}
				totalInsts += ni
				bt.warps = append(bt.warps, wt)
			}
			totalWarps += nw
			if nw > maxWarps {
				maxWarps = nw
			}
			kt.blocks = append(kt.blocks, bt)
		}
		totalBlocks += nb
		if nb > maxBlocks {
			maxBlocks = nb
		}
		ks = append(ks, kt)
	}
	if nK > c.Devices {
		probes["more_kernels_than_devices"] = 1
	}
	if maxBlocks > c.SMs {
		probes["more_blocks_than_sms"] = 1
	}
	if maxWarps > c.Subcores {
		probes["more_warps_than_subcores"] = 1
	}

	// ---- serialise ----
	dir, err := os.MkdirTemp("", "verif-c20-")
	if err != nil {
		harness.Bug("mkdtemp: %v", err)
	}
	defer os.RemoveAll(dir)
	var list strings.Builder
	for k, kt := range ks {
		if ch.Bool(1, 3, "memcpy") {
			fmt.Fprintf(&list, "MemcpyHtoD,0x%016x,%d\n", 0x7fb0fc400000+k*4096, 1000+k)
		}
		list.WriteString(kt.name + "\n")
		var b strings.Builder
		fmt.Fprintf(&b, "-kernel name = k%d\n-kernel id = %d\n-grid dim = (%d,1,1)\n-block dim = (%d,1,1)\n-shmem = 0\n-nregs = 12\n-binary version = 80\n-cuda stream id = 0\n", k, k+1, len(kt.blocks), 32*len(kt.blocks[0].warps))
		b.WriteString("-shmem base_addr = 0x00007fb139000000\n-local mem base_addr = 0x00007fb137000000\n-nvbit version = 1.7\n-accelsim tracer version = 5\n-enable lineinfo = 0\n\n")
		b.WriteString("#traces format = [line_num] PC mask dest_num [reg_dests] opcode src_num [reg_srcs] mem_width [adrrescompress?] [mem_addresses] immediate\n\n")
		for _, bt := range kt.blocks {
			fmt.Fprintf(&b, "\n#BEGIN_TB\n\nthread block = %d,%d,%d\n", bt.id[0], bt.id[1], bt.id[2])
			for _, wt := range bt.warps {
				fmt.Fprintf(&b, "\nwarp = %d\ninsts = %d\n", wt.id, len(wt.insts))
				for _, l := range wt.insts {
					b.WriteString(l.text() + "\n")
				}
			}
			b.WriteString("\n#END_TB\n")
		}
		if err := os.WriteFile(filepath.Join(dir, kt.name), []byte(b.String()), 0o644); err != nil {
			harness.Bug("write trace: %v", err)
		}
	}
	if ch.Bool(1, 3, "memcpy.tail") {
		fmt.Fprintf(&list, "MemcpyDtoH,0x%016x,%d\n", 0x7fb0fc461c00, 2000)
	}
	if err := os.WriteFile(filepath.Join(dir, "kernelslist.g"), []byte(list.String()), 0o644); err != nil {
		harness.Bug("write kernelslist: %v", err)
	}

	cfgDigest := func() uint64 {
		h := uint64(1469598103934665603)
		mix := func(s string) {
			for i := 0; i < len(s); i++ {
				h = (h ^ uint64(s[i])) * 1099511628211
			}
		}
		mix(fmt.Sprintf("%+v", c))
		for _, kt := range ks {
			for _, bt := range kt.blocks {
				for _, wt := range bt.warps {
					mix(fmt.Sprintf("|%d", len(wt.insts)))
				}
				mix("/")
			}
			mix("#")
		}
		return h
	}()
	opt.Describe(map[string]any{"config": c, "blocks": totalBlocks, "warps": totalWarps, "insts": totalInsts})

	var viol *harness.Result
	fail := func(rule, sig, format string, a ...any) {
		if viol == nil {
			viol = &harness.Result{Rule: rule, Signature: sig, Detail: fmt.Sprintf(format, a...)}
		}
	}

	// ---- R4: the parsed trace equals the serialised one ----
	reader := new(tracereader.TraceReaderBuilder).WithTraceDirectory(dir).Build()
	ki := 0
	for _, meta := range reader.GetExecMetas() {
		if meta.ExecType() != nvidiaconfig.ExecKernel {
			continue
		}
		if ki >= len(ks) {
			fail("R4", "too-many-kernels-parsed", "kernelslist.g has %d kernels, the reader found more", len(ks))
			break
		}
		tr := tracereader.ReadTrace(meta)
		kt := ks[ki]
		ki++
		if int(tr.ThreadblocksCount()) != len(kt.blocks) {
			fail("R4", "block-count", "kernel %s: %d thread blocks serialised, %d parsed", kt.name, len(kt.blocks), tr.ThreadblocksCount())
			break
		}
		for bi, bt := range kt.blocks {
			ptb := tr.Threadblock(int64(bi))
			if int(ptb.WarpsCount()) != len(bt.warps) {
				fail("R4", "warp-count", "kernel %s block %d: %d warps serialised, %d parsed", kt.name, bi, len(bt.warps), ptb.WarpsCount())
				break
			}
			for wi, wt := range bt.warps {
				pw := ptb.Warp(int64(wi))
				if int(pw.InstructionsCount()) != len(wt.insts) || int(pw.InstsCount) != len(wt.insts) {
					fail("R4", "instruction-count", "kernel %s block %d warp %d: %d instructions serialised, %d parsed (header %d)", kt.name, bi, wi, len(wt.insts), pw.InstructionsCount(), pw.InstsCount)
					break
				}
				for ii, l := range wt.insts {
					if d := diffInst(l, pw.Instructions[ii]); d != "" {
						fail("R4", "instruction-field/"+strings.SplitN(d, " ", 2)[0], "kernel %s block %d warp %d instruction %d (%q): %s", kt.name, bi, wi, ii, l.text(), d)
						break
					}
				}
				if viol != nil {
					break
				}
			}
			if viol != nil {
				break
			}
		}
		if viol != nil {
			break
		}
	}
	if viol == nil && ki != len(ks) {
		fail("R4", "kernel-count", "%d kernels serialised, %d found by the reader", len(ks), ki)
	}

	// ---- build the platform (as platform.A100PlatformBuilder does) ----
	mode := simengine.Faithful
	if c.Tie {
		mode = simengine.Permute
	}
	eng := simengine.New(mode, ch)
	eng.PermuteSecondary = true
	eng.MaxEvents = 30_000_000
	freq := 1 * sim.GHz
	drv := new(driver.DriverBuilder).WithEngine(eng).WithFreq(freq).Build("Driver")
	gb := new(gpu.GPUBuilder).WithEngine(eng).WithFreq(freq).WithSMsCount(int64(c.SMs)).WithSubcoresCountPerSM(int64(c.Subcores))
	var gpus []*gpu.GPU
	rec := monitor.New(eng)
	for i := 0; i < c.Devices; i++ {
		g := gb.Build(fmt.Sprintf("GPU(%d)", i))
		drv.RegisterGPU(g)
		gpus = append(gpus, g)
		rec.Attach(g.GetPortByName(fmt.Sprintf("GPU(%d).ToDriver", i)), fmt.Sprintf("gpu%d.drv", i))
		rec.Attach(g.GetPortByName(fmt.Sprintf("GPU(%d).ToSMs", i)), fmt.Sprintf("gpu%d.sms", i))
	}
	rec.Attach(drv.GetPortByName("ToDevice"), "driver")

	// ---- run, the way runner.Runner.Run does ----
	bm := new(benchmark.BenchmarkBuilder).WithTraceDirectory(dir).Build()
	for _, exec := range bm.TraceExecs {
		exec.Run(drv)
	}
	drv.TickLater()
	_ = eng.Run()

	res := harness.Result{
		ConfigDigest: cfgDigest, OrderDigest: rec.Digest(),
		Events: eng.Stats.Events, SimTime: float64(eng.CurrentTime()),
		Faults: map[string]uint64{"tie_reorder": eng.Stats.TieReordered + eng.Stats.SecReordered, "config_swarm": 1},
		Probes: probes,
	}
	res.Nontrivial = res.Faults["tie_reorder"] > 0 && totalBlocks > 0

	if eng.Stats.CapHit {
		res.Inconclusive = "event-cap"
	} else if viol == nil {
		// ---- conservation and idleness at engine stop ----
		var warps, insts int64
		idleProblem := ""
		for gi, g := range gpus {
			smIDs := make([]string, 0, len(g.SMs))
			for id := range g.SMs {
				smIDs = append(smIDs, id)
			}
			sort.Strings(smIDs)
			if n := field(g, "freeSMs").Len(); n != len(g.SMs) && idleProblem == "" {
				idleProblem = fmt.Sprintf("GPU %d has %d of %d SMs free", gi, n, len(g.SMs))
			}
			if n := field(g, "undispatchedThreadblocks").Len(); n != 0 && idleProblem == "" {
				idleProblem = fmt.Sprintf("GPU %d still holds %d undispatched thread blocks", gi, n)
			}
			if n := field(g, "unfinishedThreadblocksCount").Int(); n != 0 && idleProblem == "" {
				idleProblem = fmt.Sprintf("GPU %d has %d unfinished thread blocks", gi, n)
			}
			for _, id := range smIDs {
				s := g.SMs[id]
				warps += s.GetTotalWarpsCount()
				if n := field(s, "freeSubcores").Len(); n != len(s.Subcores) && idleProblem == "" {
					idleProblem = fmt.Sprintf("an SM of GPU %d has %d of %d sub-cores free", gi, n, len(s.Subcores))
				}
				if n := field(s, "unfinishedWarpsCount").Int(); n != 0 && idleProblem == "" {
					idleProblem = fmt.Sprintf("an SM of GPU %d has %d unfinished warps", gi, n)
				}
				if n := field(s, "undispatchedWarps").Len(); n != 0 && idleProblem == "" {
					idleProblem = fmt.Sprintf("an SM of GPU %d still holds %d undispatched warps", gi, n)
				}
				scIDs := make([]string, 0, len(s.Subcores))
				for id := range s.Subcores {
					scIDs = append(scIDs, id)
				}
				sort.Strings(scIDs)
				for _, sid := range scIDs {
					sc := s.Subcores[sid]
					insts += sc.GetTotalInstsCount()
					if n := field(sc, "unfinishedInstsCount").Int(); n != 0 && idleProblem == "" {
						idleProblem = fmt.Sprintf("a sub-core of GPU %d has %d unfinished instructions", gi, n)
					}
				}
			}
		}
		unfinished := field(drv, "unfinishedKernelsCount").Int()
		undisp := field(drv, "undispatchedKernels").Len()
		freeDev := field(drv, "freeDevices").Len()
		switch {
		case unfinished != 0 || undisp != 0:
			sig := "kernels-unreported-at-stop"
			fail("LIVE", sig, "the engine ran dry with %d kernels unfinished and %d undispatched (warps dispatched %d/%d, instructions %d/%d); %s", unfinished, undisp, warps, totalWarps, insts, totalInsts, idleProblem)
		case warps != int64(totalWarps):
			fail("R1", "warp-count", "SMs counted %d warps, the trace has %d", warps, totalWarps)
		case insts != int64(totalInsts):
			fail("R2", "instruction-count", "sub-cores counted %d instructions, the trace has %d", insts, totalInsts)
		case idleProblem != "":
			fail("R3", "unit-not-idle-at-stop", "%s", idleProblem)
		case freeDev != c.Devices:
			fail("R3", "device-not-free-at-stop", "%d of %d devices are in the driver's free list", freeDev, c.Devices)
		}
	}
	if viol != nil {
		res.Rule, res.Signature, res.Detail = viol.Rule, viol.Signature, viol.Detail
	}
	if opt.Verbose || res.Failed() {
		shape := []string{}
		for _, kt := range ks {
			s := kt.name + ":"
			for _, bt := range kt.blocks {
				s += "["
				for _, wt := range bt.warps {
					s += fmt.Sprintf("%d ", len(wt.insts))
				}
				s += "]"
			}
			shape = append(shape, s)
		}
		res.Sample = map[string]any{"config": c, "instructions_per_warp": shape, "events": res.Events}
	}
	if res.Failed() {
		res.Log = rec.Dump(40, nil)
	}
	return res
}

func diffInst(l instLine, p *tracereader.Instruction) string {
	if p.PC != l.PC {
		return fmt.Sprintf("PC parsed %#x, serialised %#x", p.PC, l.PC)
	}
	if p.Mask != l.Mask {
		return fmt.Sprintf("Mask parsed %#x, serialised %#x", p.Mask, l.Mask)
	}
	if int(p.DestNum) != len(l.Dests) || len(p.DestRegs) != len(l.Dests) {
		return fmt.Sprintf("DestNum parsed %d, serialised %d", p.DestNum, len(l.Dests))
	}
	for i := range l.Dests {
		if p.DestRegs[i].String() != l.Dests[i] {
			return fmt.Sprintf("DestReg %d parsed %s, serialised %s", i, p.DestRegs[i], l.Dests[i])
		}
	}
	if int(p.SrcNum) != len(l.Srcs) || len(p.SrcRegs) != len(l.Srcs) {
		return fmt.Sprintf("SrcNum parsed %d, serialised %d", p.SrcNum, len(l.Srcs))
	}
	for i := range l.Srcs {
		if p.SrcRegs[i].String() != l.Srcs[i] {
			return fmt.Sprintf("SrcReg %d parsed %s, serialised %s", i, p.SrcRegs[i], l.Srcs[i])
		}
	}
	if p.MemWidth != l.MemWidth {
		return fmt.Sprintf("MemWidth parsed %d, serialised %d", p.MemWidth, l.MemWidth)
	}
	if l.MemWidth != 0 {
		if p.AddressCompress != l.Compress {
			return fmt.Sprintf("AddressCompress parsed %d, serialised %d", p.AddressCompress, l.Compress)
		}
		if p.MemAddress != l.Addr {
			return fmt.Sprintf("MemAddress parsed %#x, serialised %#x", p.MemAddress, l.Addr)
		}
		if l.Compress == 1 && p.MemAddressSuffix1 != l.Suffix1 {
			return fmt.Sprintf("MemAddressSuffix1 parsed %d, serialised %d", p.MemAddressSuffix1, l.Suffix1)
		}
		if l.Compress == 2 {
			if len(p.MemAddressSuffix2) != len(l.Suffix2) {
				return fmt.Sprintf("MemAddressSuffix2 parsed %v, serialised %v", p.MemAddressSuffix2, l.Suffix2)
			}
			for i := range l.Suffix2 {
				if p.MemAddressSuffix2[i] != l.Suffix2[i] {
					return fmt.Sprintf("MemAddressSuffix2 parsed %v, serialised %v", p.MemAddressSuffix2, l.Suffix2)
				}
			}
		}
	}
	if p.Immediate != l.Imm {
		return fmt.Sprintf("Immediate parsed %d, serialised %d", p.Immediate, l.Imm)
	}
	return ""
}
