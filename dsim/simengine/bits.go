package simengine

import "math"

func toBits(f float64) uint64   { return math.Float64bits(f) }
func fromBits(b uint64) float64 { return math.Float64frombits(b) }
