// Package simengine provides SeededEngine, a sim.Engine whose same-time event
// order is decided by the run's decision source.
//
// Faithful mode reuses akita's own event heap and the SerialEngine's selection
// rule, so the event order is bit-identical to sim.SerialEngine. Permute mode
// runs the primary events that carry the same timestamp in an order drawn from
// the decision source (secondary events still run after every primary event
// of the same time; time stays monotone) - exactly the freedom akita's engine
// contract leaves (its ParallelEngine runs same-time events concurrently).
package simengine

import (
	"fmt"
	"sync"
	"sync/atomic"

	"github.com/sarchlab/akita/v4/sim"

	"verif/dsim/choice"
)

// Mode selects the tie-breaking rule.
type Mode int

const (
	// Faithful orders events exactly as sim.SerialEngine does.
	Faithful Mode = iota
	// Permute orders same-time events by the decision source.
	Permute
)

// Stats are the counters the engine keeps.
type Stats struct {
	Events        uint64
	TieGroups     uint64 // choices among >1 same-time events
	TieReordered  uint64 // of those, choices that were not the first candidate
	SecTieGroups  uint64
	SecReordered  uint64
	MaxTie        int
	CapHit        bool
	RunCalls      uint64
	PausesGranted uint64
}

// SeededEngine implements sim.Engine.
type SeededEngine struct {
	sim.HookableBase

	mode Mode
	ch   *choice.Source
	// PermuteSecondary also permutes same-time secondary events.
	PermuteSecondary bool
	// PermuteNum/PermuteDen: probability that a tie group is permuted at all
	// (the rest of the time the first candidate runs). Default 1/1.
	PermuteNum, PermuteDen int

	now   atomic.Uint64 // float64 bits
	queue sim.EventQueue
	sec   sim.EventQueue

	// permute mode: the events of the current timestamp.
	batch    []sim.Event
	secBatch []sim.Event

	sem     chan struct{} // 1-slot semaphore: held while an event runs or the engine is paused
	pauseMu sync.Mutex
	paused  bool
	runMu   chan struct{}

	// BeforeEvent, when set, runs on the engine goroutine before each event
	// (outside the pause semaphore). The goroutine controller parks here.
	BeforeEvent func()
	// OnPauseContinue, when set, is called on entry to Pause ("pause") and Continue ("continue"), on the
	// caller's goroutine and outside any engine event: a controlled scheduler makes them scheduling points
	// (every synchronisation with the engine is a point where another thread may run).
	OnPauseContinue func(which string)
	// AfterEvent, when set, runs after each event with the engine's global
	// event ordinal (inside the semaphore).
	AfterEvent func(seq uint64)

	// MaxEvents stops Run (sets CapHit) after this many events; 0 = no cap.
	MaxEvents uint64
	// Stop, when it returns true before an event, ends Run.
	Stop func() bool

	Stats Stats
}

// New creates an engine.
func New(mode Mode, ch *choice.Source) *SeededEngine {
	e := &SeededEngine{
		mode:       mode,
		ch:         ch,
		queue:      sim.NewEventQueue(),
		sec:        sim.NewEventQueue(),
		sem:        make(chan struct{}, 1),
		runMu:      make(chan struct{}, 1),
		PermuteNum: 1, PermuteDen: 1,
	}
	return e
}

func (e *SeededEngine) readNow() sim.VTimeInSec {
	return sim.VTimeInSec(fromBits(e.now.Load()))
}

func (e *SeededEngine) writeNow(t sim.VTimeInSec) {
	e.now.Store(toBits(float64(t)))
}

// CurrentTime implements sim.TimeTeller.
func (e *SeededEngine) CurrentTime() sim.VTimeInSec { return e.readNow() }

// Schedule implements sim.EventScheduler.
func (e *SeededEngine) Schedule(evt sim.Event) {
	if evt.Time() < e.readNow() {
		panic(fmt.Sprintf("scheduling an event earlier than current time: %v < %v (%T)",
			evt.Time(), e.readNow(), evt))
	}
	if evt.IsSecondary() {
		e.sec.Push(evt)
		return
	}
	e.queue.Push(evt)
}

// Pause implements sim.Engine. The caller blocks (durably, on a channel) until
// the event in progress has finished.
func (e *SeededEngine) Pause() {
	if e.OnPauseContinue != nil {
		e.OnPauseContinue("pause")
	}
	e.pauseMu.Lock()
	if e.paused {
		e.pauseMu.Unlock()
		return
	}
	e.pauseMu.Unlock()
	e.sem <- struct{}{}
	e.pauseMu.Lock()
	e.paused = true
	e.Stats.PausesGranted++
	e.pauseMu.Unlock()
}

// Continue implements sim.Engine.
func (e *SeededEngine) Continue() {
	if e.OnPauseContinue != nil {
		e.OnPauseContinue("continue")
	}
	e.pauseMu.Lock()
	if !e.paused {
		e.pauseMu.Unlock()
		return
	}
	e.paused = false
	e.pauseMu.Unlock()
	<-e.sem
}

// Pending reports the number of queued events.
func (e *SeededEngine) Pending() int {
	return e.queue.Len() + e.sec.Len() + len(e.batch) + len(e.secBatch)
}

// Run implements sim.Engine: it processes events until none is left.
func (e *SeededEngine) Run() error {
	e.runMu <- struct{}{}
	defer func() { <-e.runMu }()
	e.Stats.RunCalls++

	for {
		if e.Pending() == 0 {
			return nil
		}
		if e.MaxEvents > 0 && e.Stats.Events >= e.MaxEvents {
			e.Stats.CapHit = true
			return nil
		}
		if e.Stop != nil && e.Stop() {
			return nil
		}
		if e.BeforeEvent != nil {
			e.BeforeEvent()
		}

		e.sem <- struct{}{}
		// The queue may have changed while we waited (another goroutine may
		// have scheduled under Pause), never shrunk.
		evt := e.next()
		if evt.Time() < e.readNow() {
			panic(fmt.Sprintf("cannot run event in the past: %T @%v now %v",
				evt, evt.Time(), e.readNow()))
		}
		e.writeNow(evt.Time())

		ctx := sim.HookCtx{Domain: e, Pos: sim.HookPosBeforeEvent, Item: evt}
		e.InvokeHook(ctx)
		_ = evt.Handler().Handle(evt)
		ctx.Pos = sim.HookPosAfterEvent
		e.InvokeHook(ctx)

		e.Stats.Events++
		if e.AfterEvent != nil {
			e.AfterEvent(e.Stats.Events)
		}
		<-e.sem
	}
}

func (e *SeededEngine) next() sim.Event {
	if e.mode == Faithful {
		return e.nextFaithful()
	}
	return e.nextPermute()
}

func (e *SeededEngine) nextFaithful() sim.Event {
	if e.queue.Len() == 0 {
		return e.sec.Pop()
	}
	if e.sec.Len() == 0 {
		return e.queue.Pop()
	}
	p := e.queue.Peek()
	s := e.sec.Peek()
	if p.Time() <= s.Time() {
		e.queue.Pop()
		return p
	}
	e.sec.Pop()
	return s
}

// earliest returns the smallest timestamp among all pending events.
func (e *SeededEngine) nextPermute() sim.Event {
	// Time of the earliest primary and secondary event.
	const inf = sim.VTimeInSec(1e300)
	pt, st := inf, inf
	if len(e.batch) > 0 {
		pt = e.batch[0].Time()
	}
	if e.queue.Len() > 0 {
		if t := e.queue.Peek().Time(); t < pt {
			pt = t
		}
	}
	if len(e.secBatch) > 0 {
		st = e.secBatch[0].Time()
	}
	if e.sec.Len() > 0 {
		if t := e.sec.Peek().Time(); t < st {
			st = t
		}
	}

	if pt <= st {
		// If the queue holds something earlier than the batch (cannot happen:
		// time is monotone and the batch is at "now"), the batch is pushed back.
		if len(e.batch) > 0 && e.batch[0].Time() != pt {
			for _, ev := range e.batch {
				e.queue.Push(ev)
			}
			e.batch = e.batch[:0]
		}
		for e.queue.Len() > 0 && e.queue.Peek().Time() == pt {
			e.batch = append(e.batch, e.queue.Pop())
		}
		return e.pickFrom(&e.batch, false)
	}

	if len(e.secBatch) > 0 && e.secBatch[0].Time() != st {
		for _, ev := range e.secBatch {
			e.sec.Push(ev)
		}
		e.secBatch = e.secBatch[:0]
	}
	for e.sec.Len() > 0 && e.sec.Peek().Time() == st {
		e.secBatch = append(e.secBatch, e.sec.Pop())
	}
	return e.pickFrom(&e.secBatch, true)
}

func (e *SeededEngine) pickFrom(b *[]sim.Event, secondary bool) sim.Event {
	n := len(*b)
	idx := 0
	if n > 1 {
		if n > e.Stats.MaxTie {
			e.Stats.MaxTie = n
		}
		permute := !secondary || e.PermuteSecondary
		if permute && e.PermuteDen > e.PermuteNum {
			permute = e.ch.Bool(e.PermuteNum, e.PermuteDen, "tie?")
		}
		if permute {
			idx = e.ch.Intn(n, "tie")
		}
		if secondary {
			e.Stats.SecTieGroups++
			if idx != 0 {
				e.Stats.SecReordered++
			}
		} else {
			e.Stats.TieGroups++
			if idx != 0 {
				e.Stats.TieReordered++
			}
		}
	}
	evt := (*b)[idx]
	// keep the remaining events in their relative order
	copy((*b)[idx:], (*b)[idx+1:])
	(*b)[n-1] = nil
	*b = (*b)[:n-1]
	return evt
}
