// Package monitor records the complete message history of the ports of a
// component under test through akita's port hooks, stamped with a global
// sequence number (a total order: the simulation runs one event at a time).
package monitor

import (
	"fmt"
	"hash/fnv"
	"reflect"

	"github.com/sarchlab/akita/v4/sim"
)

// Kind of a recorded port event.
type Kind uint8

const (
	// Send : the owner pushed a message into the port's outgoing buffer.
	Send Kind = iota
	// Recvd : a message was delivered into the port's incoming buffer.
	Recvd
	// RetrieveIn : the owner took a message from the incoming buffer.
	RetrieveIn
	// RetrieveOut : the connection took a message from the outgoing buffer.
	RetrieveOut
)

func (k Kind) String() string {
	return [...]string{"send", "recvd", "retrIn", "retrOut"}[k]
}

// Event is one port event.
type Event struct {
	Seq  uint64
	Time sim.VTimeInSec
	Port string // logical name given at Attach
	Kind Kind
	Msg  sim.Msg
}

// Recorder collects events of several ports.
type Recorder struct {
	Events []Event
	seq    uint64
	tt     sim.TimeTeller
	// OnEvent, when set, is called for every event as it happens (online oracles).
	OnEvent func(e *Event)
	// OnAny, when set, is called for every event before OnEvent.
	OnAny  func()
	digest uint64
}

// New creates a recorder.
func New(tt sim.TimeTeller) *Recorder {
	return &Recorder{tt: tt, digest: 1469598103934665603}
}

type hook struct {
	r    *Recorder
	name string
}

func (h *hook) Func(ctx sim.HookCtx) {
	var k Kind
	switch ctx.Pos {
	case sim.HookPosPortMsgSend:
		k = Send
	case sim.HookPosPortMsgRecvd:
		k = Recvd
	case sim.HookPosPortMsgRetrieveIncoming:
		k = RetrieveIn
	case sim.HookPosPortMsgRetrieveOutgoing:
		k = RetrieveOut
	default:
		return
	}
	msg, ok := ctx.Item.(sim.Msg)
	if !ok {
		return
	}
	h.r.seq++
	e := Event{Seq: h.r.seq, Time: h.r.tt.CurrentTime(), Port: h.name, Kind: k, Msg: msg}
	h.r.Events = append(h.r.Events, e)
	// digest: order of (port, kind, message type) - never message IDs, which are
	// process-global counters.
	f := fnv.New64a()
	f.Write([]byte(h.name))
	f.Write([]byte{byte(k)})
	f.Write([]byte(reflect.TypeOf(msg).String()))
	h.r.digest = (h.r.digest ^ f.Sum64()) * 1099511628211
	if h.r.OnAny != nil {
		h.r.OnAny()
	}
	if h.r.OnEvent != nil {
		h.r.OnEvent(&h.r.Events[len(h.r.Events)-1])
	}
}

// Attach starts recording a port under a logical name.
func (r *Recorder) Attach(p sim.Port, name string) {
	p.AcceptHook(&hook{r: r, name: name})
}

// Seq returns the current global sequence number.
func (r *Recorder) Seq() uint64 { return r.seq }

// Digest is a digest of the event order.
func (r *Recorder) Digest() uint64 { return r.digest }

// Filter returns the events of a port and kind.
func (r *Recorder) Filter(port string, kind Kind) []Event {
	var out []Event
	for _, e := range r.Events {
		if e.Port == port && e.Kind == kind {
			out = append(out, e)
		}
	}
	return out
}

// Dump renders the last n events (diagnostics in replay files).
func (r *Recorder) Dump(n int, describe func(sim.Msg) string) []string {
	start := 0
	if n > 0 && len(r.Events) > n {
		start = len(r.Events) - n
	}
	out := make([]string, 0, len(r.Events)-start)
	for _, e := range r.Events[start:] {
		d := reflect.TypeOf(e.Msg).String()
		if describe != nil {
			d = describe(e.Msg)
		}
		out = append(out, fmt.Sprintf("#%d t=%.9f %s %s %s", e.Seq, float64(e.Time), e.Port, e.Kind, d))
	}
	return out
}
