package harness

import (
	"bytes"
	"encoding/json"
	"fmt"
	"os"
	"os/exec"
	"path/filepath"
	"strings"
	"time"

	"verif/dsim/choice"
)

// Job is what an external (one process per run) harness hands to its child.
type Job struct {
	Property string `json:"property"`
	Seed     uint64 `json:"seed"`
	Replay   bool   `json:"replay"`
	Trace    []int  `json:"trace,omitempty"`
	// PrefixN: ranges of the draws the parent already made on this stream
	// (e.g. the part selection of a Multi harness); the child repeats them first
	PrefixN []int `json:"prefix_n,omitempty"`
	// Params are free-form parameters for the child (used by parent-side
	// harnesses that run several children per run, e.g. C05).
	Params  map[string]string `json:"params,omitempty"`
	Tier    string            `json:"tier"`
	Verbose bool              `json:"verbose"`
	Out     string            `json:"out"`
}

// JobResult is what the child writes back.
type JobResult struct {
	Res      Result `json:"res"`
	Consumed []int  `json:"consumed"`
}

// External is a harness whose every run is a fresh child process (the
// whole-platform test binary): process-global state of the code under test
// (ID counters, flags, the driver's PID counter) never leaks between runs, a
// log.Fatal or os.Exit of the code under test is observed as an outcome, and
// the run executes inside a testing/synctest bubble.
type External struct {
	Property    string
	Ver         string
	M           Meta
	Quick, Thor int
	ChildKey    string // registry key in the child (defaults to Property)
	Bin         string // path of the test binary, relative to the dsim directory
	TestName    string
	// Classify turns a child that died without a result into a verdict.
	Classify func(phase string, exitCode int, output string) Result
}

// ID implements Harness.
func (e External) ID() string { return e.Property }

// JobProperty is the key of the child's registry entry.
func (e External) JobProperty() string {
	if e.ChildKey != "" {
		return e.ChildKey
	}
	return e.Property
}

// Version implements Harness.
func (e External) Version() string { return e.Ver }

// Meta implements Harness.
func (e External) Meta() Meta { return e.M }

// Runs implements Harness.
func (e External) Runs(tier string) int {
	if tier == "thorough" {
		return e.Thor
	}
	return e.Quick
}

// Run implements Harness.
func (e External) Run(ch *choice.Source, opt Options) Result {
	return e.RunJob(ch, opt, nil, 0)
}

// RunJob runs one child with extra parameters.
func (e External) RunJob(ch *choice.Source, opt Options, params map[string]string, maxProcs int) Result {
	dir, err := os.MkdirTemp("", "verif-job-")
	if err != nil {
		return Result{HarnessBug: err.Error()}
	}
	defer os.RemoveAll(dir)
	job := Job{Property: e.JobProperty(), Seed: ch.Seed(), Replay: ch.IsReplay(), Trace: ch.Input(), PrefixN: append([]int{}, ch.Ns()...), Tier: opt.Tier, Verbose: opt.Verbose, Out: filepath.Join(dir, "result.json"), Params: params}
	jb, _ := json.Marshal(job)
	jobPath := filepath.Join(dir, "job.json")
	if err := os.WriteFile(jobPath, jb, 0o644); err != nil {
		return Result{HarnessBug: err.Error()}
	}
	bin := e.Bin
	if !filepath.IsAbs(bin) {
		exe, _ := os.Executable()
		bin = filepath.Join(filepath.Dir(exe), filepath.Base(bin))
	}
	to := e.M.PerRunTimeoutS
	if to == 0 {
		to = 120
	}
	cmd := exec.Command(bin, "-test.run", "^"+e.TestName+"$", "-test.timeout", "0", "-test.count", "1")
	cmd.Env = append(os.Environ(), "VERIF_JOB="+jobPath, "TMPDIR="+dir)
	if maxProcs > 0 {
		cmd.Env = append(cmd.Env, fmt.Sprintf("GOMAXPROCS=%d", maxProcs))
	} else if os.Getenv("GOMAXPROCS") == "" {
		// 16 workers each start one child per run: a child needs two threads, not sixteen
		cmd.Env = append(cmd.Env, "GOMAXPROCS=2")
	}
	cmd.Dir = dir
	var out bytes.Buffer
	cmd.Stdout = &out
	cmd.Stderr = &out
	if err := cmd.Start(); err != nil {
		return Result{HarnessBug: "cannot start " + bin + ": " + err.Error()}
	}
	done := make(chan error, 1)
	go func() { done <- cmd.Wait() }()
	var werr error
	select {
	case werr = <-done:
	case <-time.After(time.Duration(to) * time.Second):
		_ = cmd.Process.Kill()
		<-done
		return Result{Inconclusive: "watchdog"}
	}
	b, rerr := os.ReadFile(job.Out)
	if rerr == nil {
		var jr JobResult
		if err := json.Unmarshal(b, &jr); err == nil {
			ch.Adopt(jr.Consumed)
			return jr.Res
		}
	}
	// the child died without a verdict: the code under test exited the process
	phase := ""
	if pb, err := os.ReadFile(job.Out + ".phase"); err == nil {
		phase = strings.TrimSpace(string(pb))
	}
	if cb, err := os.ReadFile(job.Out + ".consumed"); err == nil {
		var consumed []int
		if json.Unmarshal(cb, &consumed) == nil {
			ch.Adopt(consumed)
		}
	}
	code := -1
	if ee, ok := werr.(*exec.ExitError); ok {
		code = ee.ExitCode()
	} else if werr == nil {
		code = 0
	}
	var sample any
	if sb, err := os.ReadFile(job.Out + ".sample"); err == nil {
		_ = json.Unmarshal(sb, &sample)
	}
	if e.Classify != nil {
		r := e.Classify(phase, code, out.String())
		if r.Rule != "" || r.Inconclusive != "" || r.HarnessBug != "" {
			if r.Sample == nil {
				r.Sample = sample
			}
			return r
		}
	}
	return Result{HarnessBug: fmt.Sprintf("child exited (code %d, phase %q) without a result: %s", code, phase, tail(out.String(), 2500))}
}
