package harness

import (
	"bufio"
	"bytes"
	"encoding/json"
	"flag"
	"fmt"
	"io"
	"log"
	"os"
	"os/exec"
	"path/filepath"
	"runtime"
	"sort"
	"strconv"
	"strings"
	"sync"
	"time"

	"verif/dsim/choice"
)

// VerifDir is where evidence, replays and known findings live.
var VerifDir = verifDir()

// verifDir is the checkout the running binary belongs to (<root>/dsim/bin/run.N/check): /verif for the
// registered commands, a snapshot's own directory for background runs started from a snapshot.
func verifDir() string {
	if exe, err := os.Executable(); err == nil {
		root := filepath.Dir(filepath.Dir(filepath.Dir(filepath.Dir(exe))))
		if _, err := os.Stat(filepath.Join(root, "known_findings.json")); err == nil {
			return root
		}
	}
	return "/verif"
}

// ReplayFile is the on-disk form of one failing (or sample) run.
type ReplayFile struct {
	Property       string   `json:"property"`
	HarnessVersion string   `json:"harness_version"`
	BatchSeed      uint64   `json:"batch_seed"`
	RunIndex       uint64   `json:"run_index"`
	RunSeed        uint64   `json:"run_seed"`
	Trace          []int    `json:"decisions"`
	OriginalDraws  int      `json:"original_draws"`
	ShrinkRuns     int      `json:"shrink_runs"`
	Rule           string   `json:"rule"`
	Signature      string   `json:"signature"`
	Detail         string   `json:"detail"`
	OrderDigest    uint64   `json:"order_digest"`
	Sample         any      `json:"sample,omitempty"`
	Log            []string `json:"log,omitempty"`
	// Focus is the value of VERIF_FOCUS when the run was recorded (a bug-hunting aid that narrows the drawn
	// workload to one kind; never set by registered commands). A replay restores it, so the file is self-contained.
	Focus string `json:"focus,omitempty"`
}

type workerLine struct {
	I   uint64 `json:"i"`
	Res Result `json:"res"`
	Ms  int64  `json:"ms"`
	// Resume: the worker process retires (its memory has grown); a fresh process continues at run I.
	Resume bool `json:"resume,omitempty"`
}

type knownFinding struct {
	Property  string `json:"property"`
	Rule      string `json:"rule"`
	Signature string `json:"signature"`
	What      string `json:"what"`
	Status    string `json:"status"` // "known" or "fixed"
	Commit    string `json:"commit,omitempty"`
}

func loadKnown() []knownFinding {
	if os.Getenv("VERIF_IGNORE_KNOWN") != "" {
		return nil // used to (re)generate the replay files of recorded findings
	}
	b, err := os.ReadFile(filepath.Join(VerifDir, "known_findings.json"))
	if err != nil {
		return nil
	}
	var doc struct {
		Findings []knownFinding `json:"findings"`
	}
	if err := json.Unmarshal(b, &doc); err != nil {
		fmt.Fprintf(os.Stderr, "known_findings.json unreadable: %v\n", err)
		os.Exit(2)
	}
	return doc.Findings
}

func envUint(name string, def uint64) uint64 {
	if v := os.Getenv(name); v != "" {
		if n, err := strconv.ParseUint(v, 10, 64); err == nil {
			return n
		}
		if n, err := strconv.ParseInt(v, 10, 64); err == nil {
			return uint64(n)
		}
	}
	return def
}

// Main is the entry point of cmd/check.
func Main(reg map[string]Harness) {
	if len(os.Args) < 2 {
		fmt.Fprintln(os.Stderr, "usage: check <ID> [--tier quick|thorough] [--seed N] [--runs N] [--replay file]")
		os.Exit(2)
	}
	id := os.Args[1]
	fs := flag.NewFlagSet("check", flag.ExitOnError)
	tier := fs.String("tier", os.Getenv("VERIF_TIER"), "quick or thorough")
	seed := fs.Uint64("seed", envUint("VERIF_SEED", 20260925), "batch seed")
	runs := fs.Int("runs", 0, "override the number of runs")
	replay := fs.String("replay", "", "replay file")
	worker := fs.String("worker", "", "internal: start,stride,count")
	one := fs.String("one", "", "internal: run one trace file and print the result as JSON")
	budget := fs.Int("budget", int(envUint("VERIF_BUDGET_S", 0)), "wall-clock budget in seconds (0 = none)")
	verbose := fs.Bool("v", false, "verbose")
	_ = fs.Parse(os.Args[2:])
	if *tier == "" {
		*tier = "quick"
	}
	if *tier != "quick" && *tier != "thorough" {
		fmt.Fprintln(os.Stderr, "bad tier")
		os.Exit(2)
	}
	h, ok := reg[id]
	if !ok {
		fmt.Fprintf(os.Stderr, "unknown property %s\n", id)
		os.Exit(2)
	}
	switch {
	case *worker != "":
		runWorker(h, *tier, *seed, *worker)
	case *one != "":
		runOne(h, *tier, *one)
	case *replay != "":
		os.Exit(runReplay(h, *tier, *replay, *verbose))
	default:
		os.Exit(runBatch(h, *tier, *seed, *runs, *budget))
	}
}

func runSeed(batch uint64, id string, i uint64) uint64 {
	return choice.SplitMix(batch, id, i)
}

func runWorker(h Harness, tier string, seed uint64, spec string) {
	log.SetOutput(io.Discard) // the code under test logs before it panics
	realStdout := os.Stdout
	if null, err := os.OpenFile(os.DevNull, os.O_WRONLY, 0); err == nil {
		os.Stdout = null // some code under test prints to stdout
	}
	parts := strings.Split(spec, ",")
	start, _ := strconv.ParseUint(parts[0], 10, 64)
	stride, _ := strconv.ParseUint(parts[1], 10, 64)
	count, _ := strconv.ParseUint(parts[2], 10, 64)
	out := bufio.NewWriterSize(realStdout, 1<<16)
	defer out.Flush()
	enc := json.NewEncoder(out)
	done := 0
	for i := start; i < count; i += stride {
		t0 := time.Now()
		ch := choice.New(runSeed(seed, h.ID(), i))
		res := SafeRun(h, ch, Options{Tier: tier, Verbose: i < 4})
		if !res.Failed() && i >= 4 {
			res.Sample = nil
			res.Log = nil
		}
		_ = enc.Encode(workerLine{I: i, Res: res, Ms: time.Since(t0).Milliseconds()})
		out.Flush()
		done++
		if done%32 == 0 && i+stride < count {
			// code under test keeps state in process globals; a worker that has grown hands over to a fresh process
			var ms runtime.MemStats
			runtime.ReadMemStats(&ms)
			if ms.Sys > envUint("VERIF_WORKER_MEM_MB", 1024)<<20 {
				_ = enc.Encode(workerLine{I: i + stride, Resume: true})
				out.Flush()
				return
			}
		}
	}
}

type oneOut struct {
	Res      Result `json:"res"`
	Consumed []int  `json:"consumed"`
}

// runOne executes one trace in this (fresh) process.
func runOne(h Harness, tier string, path string) {
	b, err := os.ReadFile(path)
	if err != nil {
		fmt.Fprintln(os.Stderr, err)
		os.Exit(2)
	}
	var trace []int
	if err := json.Unmarshal(b, &trace); err != nil {
		fmt.Fprintln(os.Stderr, err)
		os.Exit(2)
	}
	log.SetOutput(io.Discard)
	realStdout := os.Stdout
	if null, err := os.OpenFile(os.DevNull, os.O_WRONLY, 0); err == nil {
		os.Stdout = null
	}
	ch := choice.Replay(trace)
	res := SafeRun(h, ch, Options{Tier: tier, Verbose: true})
	_ = json.NewEncoder(realStdout).Encode(oneOut{Res: res, Consumed: ch.Trace()})
}

// execFresh runs a trace in a fresh process.
func execFresh(h Harness, tier string, trace []int) (Result, []int, error) {
	f, err := os.CreateTemp("", "verif-trace-*.json")
	if err != nil {
		return Result{}, nil, err
	}
	defer os.Remove(f.Name())
	_ = json.NewEncoder(f).Encode(trace)
	f.Close()
	to := h.Meta().PerRunTimeoutS
	if to == 0 {
		to = 300
	}
	cmd := exec.Command(os.Args[0], h.ID(), "--tier", tier, "--one", f.Name())
	var stdout, stderr bytes.Buffer
	cmd.Stdout = &stdout
	cmd.Stderr = &stderr
	done := make(chan error, 1)
	if err := cmd.Start(); err != nil {
		return Result{}, nil, err
	}
	go func() { done <- cmd.Wait() }()
	select {
	case err = <-done:
	case <-time.After(time.Duration(to) * time.Second):
		_ = cmd.Process.Kill()
		<-done
		return Result{Inconclusive: "watchdog"}, trace, nil
	}
	var out oneOut
	// the last line that parses is the result (the code under test may log)
	lines := strings.Split(strings.TrimSpace(stdout.String()), "\n")
	parsed := false
	for i := len(lines) - 1; i >= 0; i-- {
		if json.Unmarshal([]byte(lines[i]), &out) == nil && (out.Consumed != nil || out.Res.Draws >= 0) && strings.HasPrefix(lines[i], "{\"res\"") {
			parsed = true
			break
		}
	}
	if !parsed {
		return Result{}, nil, fmt.Errorf("run process gave no result (err=%v): %s", err, tail(stderr.String(), 2000))
	}
	return out.Res, out.Consumed, nil
}

func tail(s string, n int) string {
	if len(s) > n {
		return s[len(s)-n:]
	}
	return s
}

func runReplay(h Harness, tier, path string, verbose bool) int {
	if !filepath.IsAbs(path) && os.Getenv("VERIF_ORIG_CWD") != "" {
		path = filepath.Join(os.Getenv("VERIF_ORIG_CWD"), path)
	}
	b, err := os.ReadFile(path)
	if err != nil {
		fmt.Fprintln(os.Stderr, err)
		return 2
	}
	var rf ReplayFile
	if err := json.Unmarshal(b, &rf); err != nil {
		fmt.Fprintln(os.Stderr, err)
		return 2
	}
	if rf.HarnessVersion != h.Version() {
		fmt.Fprintf(os.Stderr, "note: replay was recorded with harness version %s, this is %s\n", rf.HarnessVersion, h.Version())
	}
	if rf.Focus != "" {
		os.Setenv("VERIF_FOCUS", rf.Focus)
	}
	res, _, err := execFresh(h, tier, rf.Trace)
	if err != nil {
		fmt.Fprintln(os.Stderr, err)
		return 2
	}
	fmt.Printf("replay %s: rule=%q signature=%q order_digest=%d (recorded rule=%q digest=%d)\n",
		path, res.Rule, res.Signature, res.OrderDigest, rf.Rule, rf.OrderDigest)
	fmt.Printf("detail: %s\n", res.Detail)
	if verbose {
		for _, l := range res.Log {
			fmt.Println("  ", l)
		}
	}
	if res.HarnessBug != "" {
		fmt.Fprintln(os.Stderr, "harness bug:", res.HarnessBug)
		return 2
	}
	if res.Failed() {
		fmt.Printf("VIOLATION property=%s replay=%s\n", h.ID(), path)
		return 1
	}
	fmt.Println("replay did not fail")
	return 0
}

type failure struct {
	idx uint64
	res Result
}

func runBatch(h Harness, tier string, seed uint64, runsOverride, budgetS int) int {
	t0 := time.Now()
	meta := h.Meta()
	n := h.Runs(tier)
	if runsOverride > 0 {
		n = runsOverride
	}
	workers := runtime.NumCPU()
	if workers > 16 {
		workers = 16
	}
	if meta.WorkersOverride > 0 {
		workers = meta.WorkersOverride
	}
	if workers > n {
		workers = n
	}
	fmt.Printf("check %s tier=%s seed=%d runs=%d workers=%d harness=%s\n", h.ID(), tier, seed, n, workers, h.Version())

	var mu sync.Mutex
	var lines []workerLine
	var workerErr []string
	var wg sync.WaitGroup
	deadline := time.Time{}
	if budgetS > 0 {
		deadline = t0.Add(time.Duration(budgetS) * time.Second)
	}
	for w := 0; w < workers; w++ {
		wg.Add(1)
		go func(w int) {
			defer wg.Done()
			got := 0
			next := uint64(w)
			var stderr bytes.Buffer
			var err error
			for resume := true; resume; {
				resume = false
				cmd := exec.Command(os.Args[0], h.ID(), "--tier", tier, "--seed", strconv.FormatUint(seed, 10),
					"--worker", fmt.Sprintf("%d,%d,%d", next, workers, n))
				stderr.Reset()
				cmd.Stderr = &stderr
				pipe, perr := cmd.StdoutPipe()
				if perr != nil {
					mu.Lock()
					workerErr = append(workerErr, perr.Error())
					mu.Unlock()
					return
				}
				if serr := cmd.Start(); serr != nil {
					mu.Lock()
					workerErr = append(workerErr, serr.Error())
					mu.Unlock()
					return
				}
				sc := bufio.NewScanner(pipe)
				sc.Buffer(make([]byte, 1<<20), 1<<28)
				for sc.Scan() {
					var wl workerLine
					if !bytes.HasPrefix(sc.Bytes(), []byte("{\"i\"")) {
						continue // log output of the code under test
					}
					if jerr := json.Unmarshal(sc.Bytes(), &wl); jerr != nil {
						continue
					}
					if wl.Resume {
						next, resume = wl.I, true
						continue
					}
					got++
					mu.Lock()
					lines = append(lines, wl)
					mu.Unlock()
					if !deadline.IsZero() && time.Now().After(deadline) {
						_ = cmd.Process.Kill()
						resume = false
						break
					}
				}
				err = cmd.Wait()
				if err != nil {
					break
				}
			}
			expected := 0
			for i := w; i < n; i += workers {
				expected++
			}
			if got < expected && (deadline.IsZero() || time.Now().Before(deadline)) {
				mu.Lock()
				workerErr = append(workerErr, fmt.Sprintf("worker %d stopped after %d/%d runs: %v: %s", w, got, expected, err, tail(stderr.String(), 3000)))
				mu.Unlock()
			}
		}(w)
	}
	wg.Wait()

	if len(workerErr) > 0 {
		// A worker that dies is a crash of the process (fatal error, os.Exit in
		// the code under test, runtime deadlock): investigate the run it died on.
		for _, e := range workerErr {
			fmt.Fprintln(os.Stderr, "worker trouble:", e)
		}
	}

	sort.Slice(lines, func(i, j int) bool { return lines[i].I < lines[j].I })

	ev := newEvidence(h, tier, seed)
	var failures []failure
	harnessBugs := 0
	for _, l := range lines {
		ev.add(l)
		if l.Res.HarnessBug != "" {
			harnessBugs++
			if harnessBugs <= 2 {
				fmt.Fprintf(os.Stderr, "HARNESS BUG in run %d: %s\n", l.I, tail(l.Res.HarnessBug, 3000))
			}
			continue
		}
		if l.Res.Failed() {
			failures = append(failures, failure{l.I, l.Res})
		}
	}

	// group failures by class; handle the first of each class
	known := loadKnown()
	exit := 0
	seen := map[string]bool{}
	var classes []string
	byClass := map[string][]failure{}
	for _, f := range failures {
		c := f.res.Class()
		if !seen[c] {
			seen[c] = true
			classes = append(classes, c)
		}
		byClass[c] = append(byClass[c], f)
	}
	reported := 0
	for _, c := range classes {
		fl := byClass[c]
		f := fl[0]
		if kf := matchKnown(known, h.ID(), f.res); kf != nil {
			fmt.Printf("KNOWN-FINDING: property=%s rule=%s signature=%s runs=%d %s\n", h.ID(), f.res.Rule, f.res.Signature, len(fl), kf.What)
			ev.knownFindings = append(ev.knownFindings, fmt.Sprintf("%s/%s x%d", f.res.Rule, f.res.Signature, len(fl)))
			continue
		}
		reported++
		if reported > 4 {
			// enough distinct classes reported
			fmt.Printf("note: further violation class %s (%d runs) not minimised\n", c, len(fl))
			continue
		}
		path, confirmed, note := minimiseAndWrite(h, tier, seed, f)
		for alt := 1; !confirmed && alt < len(fl) && alt < 3; alt++ {
			// the first run of the class did not reproduce in fresh processes: try the next ones before giving up
			f = fl[alt]
			path, confirmed, note = minimiseAndWrite(h, tier, seed, f)
		}
		if !confirmed {
			ev.inconclusive["unreproducible"]++
			fmt.Fprintf(os.Stderr, "UNREPRODUCIBLE failure in run %d (%s): %s\n", f.idx, c, note)
			if exit == 0 {
				exit = 2
			}
			continue
		}
		ev.violations++
		fmt.Printf("violation: property=%s rule=%s signature=%s runs=%d first_run=%d detail=%s\n", h.ID(), f.res.Rule, f.res.Signature, len(fl), f.idx, f.res.Detail)
		fmt.Printf("VIOLATION property=%s replay=%s\n", h.ID(), path)
		exit = 1
	}
	if harnessBugs > 0 && exit == 0 {
		exit = 2
	}
	if len(workerErr) > 0 && exit == 0 {
		exit = 2
	}
	if len(lines) == 0 && exit == 0 {
		exit = 2
	}
	ev.wall = time.Since(t0).Seconds()
	if err := ev.write(); err != nil {
		fmt.Fprintln(os.Stderr, "cannot write evidence:", err)
		if exit == 0 {
			exit = 2
		}
	}
	fmt.Printf("done %s: runs=%d distinct_nontrivial=%d violations=%d known=%d inconclusive=%v wall=%.1fs exit=%d\n",
		h.ID(), len(lines), ev.distinctNontrivial(), ev.violations, len(ev.knownFindings), ev.inconclusive, ev.wall, exit)
	return exit
}

func matchKnown(known []knownFinding, id string, r Result) *knownFinding {
	for i := range known {
		k := &known[i]
		if k.Status != "known" {
			continue // "fixed" entries suppress nothing
		}
		if k.Property == id && k.Rule == r.Rule && k.Signature == r.Signature {
			return k
		}
	}
	return nil
}

func minimiseAndWrite(h Harness, tier string, seed uint64, f failure) (string, bool, string) {
	log.SetOutput(io.Discard)
	realStdout := os.Stdout
	if null, err := os.OpenFile(os.DevNull, os.O_WRONLY, 0); err == nil {
		os.Stdout = null // the code under test may print while we re-run it in-process
		defer func() { os.Stdout = realStdout; null.Close() }()
	}
	meta := h.Meta()
	rs := runSeed(seed, h.ID(), f.idx)

	var exec Exec
	if meta.ProcessPerRun {
		exec = func(trace []int) (Result, []int) {
			res, consumed, err := execFresh(h, tier, trace)
			if err != nil {
				return Result{Inconclusive: err.Error()}, trace
			}
			return res, consumed
		}
	} else {
		exec = func(trace []int) (Result, []int) {
			ch := choice.Replay(trace)
			res := SafeRun(h, ch, Options{Tier: tier})
			return res, ch.Trace()
		}
	}

	// regenerate the full trace from the seed
	var full []int
	var first Result
	if meta.ProcessPerRun {
		// run by seed in a fresh process is not available through --one; derive
		// the trace in-process by a dry PRNG run is impossible, so re-run here.
		ch := choice.New(rs)
		first = SafeRun(h, ch, Options{Tier: tier})
		full = append([]int{}, ch.Trace()...)
	} else {
		ch := choice.New(rs)
		first = SafeRun(h, ch, Options{Tier: tier})
		full = append([]int{}, ch.Trace()...)
	}
	if !first.Failed() || first.Class() != f.res.Class() {
		// the decision trace does not depend on the verdict; a verdict that is not a function of the seed
		// (a run-to-run difference of the code under test, C05) gets its chance as a replay, which repeats
		// the compared runs
		r, _ := exec(full)
		if !r.Failed() || r.Class() != f.res.Class() {
			return "", false, fmt.Sprintf("re-run from seed gave class %q instead of %q", first.Class(), f.res.Class())
		}
	}

	budget := meta.ShrinkBudget
	if budget == 0 {
		budget = 400
	}
	min, _, used := Shrink(exec, full, f.res.Class(), budget, time.Now().Add(4*time.Minute))

	// confirm twice in fresh processes
	r1, _, err1 := execFresh(h, tier, min)
	r2, _, err2 := execFresh(h, tier, min)
	if err1 != nil || err2 != nil {
		return "", false, fmt.Sprintf("fresh-process replay failed: %v %v", err1, err2)
	}
	if !r1.Failed() || !r2.Failed() || r1.Class() != f.res.Class() || r2.Class() != f.res.Class() {
		// fall back to the unshrunk trace
		r1, _, _ = execFresh(h, tier, full)
		r2, _, _ = execFresh(h, tier, full)
		min = full
		if !r1.Failed() || !r2.Failed() || r1.Class() != f.res.Class() || r2.Class() != f.res.Class() {
			return "", false, fmt.Sprintf("replay classes %q / %q differ from %q", r1.Class(), r2.Class(), f.res.Class())
		}
	}
	if r1.OrderDigest != r2.OrderDigest {
		return "", false, fmt.Sprintf("replay event-order digests differ: %d vs %d", r1.OrderDigest, r2.OrderDigest)
	}

	rf := ReplayFile{
		Property: h.ID(), HarnessVersion: h.Version(), BatchSeed: seed, RunIndex: f.idx, RunSeed: rs,
		Trace: min, OriginalDraws: len(full), ShrinkRuns: used,
		Rule: r1.Rule, Signature: r1.Signature, Detail: r1.Detail, OrderDigest: r1.OrderDigest,
		Sample: r1.Sample, Log: r1.Log, Focus: os.Getenv("VERIF_FOCUS"),
	}
	dir := filepath.Join(VerifDir, "replays", h.ID())
	_ = os.MkdirAll(dir, 0o755)
	name := fmt.Sprintf("%s-%s-seed%d-run%d.json", h.ID(), sanitize(r1.Rule+"-"+r1.Signature), seed, f.idx)
	path := filepath.Join(dir, name)
	b, _ := json.MarshalIndent(rf, "", " ")
	if err := os.WriteFile(path, b, 0o644); err != nil {
		return "", false, err.Error()
	}
	return path, true, ""
}

func sanitize(s string) string {
	var b strings.Builder
	for _, r := range s {
		switch {
		case r >= 'a' && r <= 'z', r >= 'A' && r <= 'Z', r >= '0' && r <= '9', r == '-', r == '_':
			b.WriteRune(r)
		default:
			b.WriteRune('_')
		}
	}
	out := b.String()
	if len(out) > 80 {
		out = out[:80]
	}
	return out
}
