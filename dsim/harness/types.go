// Package harness is the batch driver shared by all property checks: it fans
// seeded runs out over worker processes, minimises and confirms failures,
// writes replay files and evidence, and prints the verdict lines.
package harness

import (
	"fmt"
	"runtime/debug"
	"strings"

	"verif/dsim/choice"
)

// Result is the outcome of one simulated run.
type Result struct {
	// Rule is "" when the property held, otherwise the oracle rule id
	// ("R1", "LIVE", "PANIC", ...), see DESIGN.md 8.1.
	Rule string `json:"rule,omitempty"`
	// Signature distinguishes different violations of the same rule (known
	// findings are keyed by it). Must not contain run-specific numbers.
	Signature string `json:"sig,omitempty"`
	Detail    string `json:"detail,omitempty"`
	// Inconclusive is non-empty when the run reached no verdict (event cap...).
	Inconclusive string `json:"inconclusive,omitempty"`
	// HarnessBug is non-empty when the harness itself misbehaved (exit 2).
	HarnessBug string `json:"harness_bug,omitempty"`

	ConfigDigest uint64 `json:"cfg"`
	OrderDigest  uint64 `json:"ord"`
	Nontrivial   bool   `json:"nt"`

	Events  uint64            `json:"ev"`
	SimTime float64           `json:"st"`
	Faults  map[string]uint64 `json:"faults,omitempty"`
	Probes  map[string]uint64 `json:"probes,omitempty"`
	Draws   int               `json:"draws"`

	// Sample is a human-readable description of the run (config + workload).
	Sample any      `json:"sample,omitempty"`
	Log    []string `json:"log,omitempty"`
}

// Failed reports whether the run violated the property.
func (r *Result) Failed() bool { return r.Rule != "" }

// Class is the violation class used by the shrinker.
func (r *Result) Class() string { return r.Rule + "|" + r.Signature }

// Options given to a harness run.
type Options struct {
	// Verbose asks for the sample and the event log to be filled in.
	Verbose bool
	// Tier is "quick" or "thorough".
	Tier string
	// Early, when set, receives a description of the run before the simulation
	// starts, so that it is available even if the code under test panics.
	Early func(sample any)
	// Tag, when set, records a condition observed during the run; a panic of
	// the code under test carries the tags in its signature.
	Tag func(tag string)
}

// Note records a tag (no-op when nobody listens).
func (o Options) Note(tag string) {
	if o.Tag != nil {
		o.Tag(tag)
	}
}

// Describe reports the run description early (no-op when nobody listens).
func (o Options) Describe(sample any) {
	if o.Early != nil {
		o.Early(sample)
	}
}

// Harness is one property's simulated check.
type Harness interface {
	// ID is the property id.
	ID() string
	// Version changes whenever the meaning of a decision trace changes.
	Version() string
	// Run executes one simulated run driven by ch.
	Run(ch *choice.Source, opt Options) Result
	// Meta describes the harness for evidence.
	Meta() Meta
	// Runs returns the number of runs for a tier.
	Runs(tier string) int
}

// Meta is the static description that goes into evidence.
type Meta struct {
	Rule            string   // how cases are generated and what makes one non-trivial/distinct
	RealComponents  []string // real code in the loop
	StubComponents  []string
	Assumptions     []string
	FaultKinds      []string // fault kinds this harness can inject
	ExpectedProbes  []string // probes that must be non-zero in the thorough tier
	ProcessPerRun   bool     // run every simulation in a fresh process
	ShrinkBudget    int
	PerRunTimeoutS  int
	WorkersOverride int
}

// HarnessBugPanic is raised by harness/stub code for its own inconsistencies,
// so that they are never mistaken for a property violation.
type HarnessBugPanic struct{ Msg string }

func (h HarnessBugPanic) Error() string { return h.Msg }

// Bug panics with a HarnessBugPanic.
func Bug(format string, args ...any) {
	panic(HarnessBugPanic{Msg: fmt.Sprintf(format, args...)})
}

// SafeRun runs the harness and converts panics into results.
func SafeRun(h Harness, ch *choice.Source, opt Options) (res Result) {
	var early any
	opt.Early = func(s any) { early = s }
	var tags []string
	opt.Tag = func(t string) {
		for _, x := range tags {
			if x == t {
				return
			}
		}
		tags = append(tags, t)
	}
	defer func() {
		if r := recover(); r != nil {
			if hb, ok := r.(HarnessBugPanic); ok {
				res = Result{HarnessBug: hb.Msg}
				return
			}
			stack := string(debug.Stack())
			where := panicSite(stack)
			res.Rule = "PANIC"
			res.Signature = where
			for _, t := range tags {
				res.Signature += "/" + t
			}
			res.Detail = fmt.Sprintf("panic: %v", r)
			if strings.Contains(where, "verif/dsim/") {
				// the panic originated in harness code, not in the code under test
				res = Result{HarnessBug: fmt.Sprintf("panic in harness code at %s: %v\n%s", where, r, stack)}
				return
			}
			res.Sample = early
			lines := strings.Split(stack, "\n")
			if len(lines) > 40 {
				lines = lines[:40]
			}
			res.Log = append(res.Log, lines...)
		}
		res.Draws = ch.Draws()
	}()
	res = h.Run(ch, opt)
	return res
}

// panicSite extracts the innermost non-runtime frame of a panic stack.
func panicSite(stack string) string {
	lines := strings.Split(stack, "\n")
	seenPanic := false
	for i := 0; i < len(lines); i++ {
		l := lines[i]
		if strings.HasPrefix(l, "panic(") {
			seenPanic = true
			continue
		}
		if !seenPanic {
			continue
		}
		if strings.HasPrefix(l, "\t") || l == "" {
			continue
		}
		if strings.HasPrefix(l, "runtime.") || strings.HasPrefix(l, "log.") ||
			strings.HasPrefix(l, "fmt.") || strings.HasPrefix(l, "testing.") ||
			strings.HasPrefix(l, "github.com/sarchlab/akita/v4/sim.") {
			// infrastructure frames: the caller decides whose fault it is
			continue
		}
		// function line like "github.com/x/y.(*T).f(...)"
		fn := l
		if p := strings.LastIndex(fn, "("); p > 0 {
			fn = fn[:p]
		}
		return fn
	}
	return "unknown"
}
