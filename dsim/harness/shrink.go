package harness

import "time"

// Exec runs one trace (replay mode) and returns the result and the trace the
// run actually consumed.
type Exec func(trace []int) (Result, []int)

func trimZeros(t []int) []int {
	n := len(t)
	for n > 0 && t[n-1] == 0 {
		n--
	}
	return t[:n]
}

// Shrink minimises a failing decision trace while the violation class stays
// the same. It returns the minimised trace, its result and the number of
// re-executions used.
func Shrink(exec Exec, trace []int, class string, budget int, deadline time.Time) ([]int, Result, int) {
	used := 0
	best := trimZeros(append([]int{}, trace...))
	var bestRes Result
	have := false

	try := func(cand []int) bool {
		if used >= budget || time.Now().After(deadline) {
			return false
		}
		used++
		res, consumed := exec(cand)
		if res.Failed() && res.Class() == class && res.HarnessBug == "" {
			c := trimZeros(consumed)
			if len(c) > len(cand)+0 {
				// the run consumed more than we fed: the tail is zeros by
				// construction, so the candidate itself is the canonical form.
				c = trimZeros(cand)
			}
			best = append([]int{}, c...)
			bestRes = res
			have = true
			return true
		}
		return false
	}

	// establish the baseline (also normalises the trace)
	if !try(best) {
		return trace, Result{}, used
	}

	// 1. cut the tail
	for cut := len(best) / 2; cut >= 1; cut /= 2 {
		for len(best) > cut {
			if !try(best[:len(best)-cut]) {
				break
			}
		}
	}

	// 2. delete chunks, 3. zero chunks
	for pass := 0; pass < 2; pass++ {
		for size := len(best) / 2; size >= 1; size /= 2 {
			for start := 0; start+size <= len(best); {
				var cand []int
				if pass == 0 {
					cand = append(append([]int{}, best[:start]...), best[start+size:]...)
				} else {
					allZero := true
					for _, v := range best[start : start+size] {
						if v != 0 {
							allZero = false
							break
						}
					}
					if allZero {
						start += size
						continue
					}
					cand = append([]int{}, best...)
					for i := start; i < start+size; i++ {
						cand[i] = 0
					}
				}
				if !try(cand) {
					start += size
				}
				if used >= budget || time.Now().After(deadline) {
					return best, bestRes, used
				}
			}
		}
	}

	// 4. reduce single values
	for i := 0; i < len(best); i++ {
		for best[i] > 0 {
			cand := append([]int{}, best...)
			cand[i] = best[i] / 2
			if !try(cand) {
				break
			}
			if i >= len(best) {
				break
			}
		}
		if used >= budget || time.Now().After(deadline) {
			break
		}
	}
	_ = have
	return best, bestRes, used
}
