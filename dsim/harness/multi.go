package harness

import (
	"fmt"

	"verif/dsim/choice"
)

// Multi decides one property with several sub-harnesses (for example a
// component harness and a whole-platform harness): the first draw of a run
// selects the part, so every run is still one seed / one decision trace.
type Multi struct {
	Property string
	Parts    []Harness
	Weights  []int
	// Quick/Thor: total runs per tier (0 = sum of the parts' own sizes)
	Quick, Thor int
	// Share of the batch sizes: runs = sum over parts (so that each part keeps
	// its own depth)
}

// ID implements Harness.
func (m Multi) ID() string { return m.Property }

// Version implements Harness.
func (m Multi) Version() string {
	v := ""
	for i, p := range m.Parts {
		if i > 0 {
			v += "+"
		}
		v += p.Version()
	}
	return v
}

// Runs implements Harness.
func (m Multi) Runs(tier string) int {
	if tier == "thorough" && m.Thor > 0 {
		return m.Thor
	}
	if tier != "thorough" && m.Quick > 0 {
		return m.Quick
	}
	n := 0
	for _, p := range m.Parts {
		n += p.Runs(tier)
	}
	return n
}

// Meta implements Harness.
func (m Multi) Meta() Meta {
	out := Meta{}
	seen := map[string]bool{}
	add := func(dst *[]string, src []string) {
		for _, s := range src {
			if !seen[s] {
				seen[s] = true
				*dst = append(*dst, s)
			}
		}
	}
	for i, p := range m.Parts {
		pm := p.Meta()
		out.Rule += fmt.Sprintf("[part %d] %s ", i+1, pm.Rule)
		add(&out.RealComponents, pm.RealComponents)
		add(&out.StubComponents, pm.StubComponents)
		add(&out.Assumptions, pm.Assumptions)
		add(&out.FaultKinds, pm.FaultKinds)
		add(&out.ExpectedProbes, pm.ExpectedProbes)
		if pm.PerRunTimeoutS > out.PerRunTimeoutS {
			out.PerRunTimeoutS = pm.PerRunTimeoutS
		}
		if out.ShrinkBudget == 0 || (pm.ShrinkBudget != 0 && pm.ShrinkBudget < out.ShrinkBudget) {
			out.ShrinkBudget = pm.ShrinkBudget
		}
	}
	return out
}

// Run implements Harness.
func (m Multi) Run(ch *choice.Source, opt Options) Result {
	w := m.Weights
	if len(w) != len(m.Parts) {
		w = nil
		for _, p := range m.Parts {
			w = append(w, max(1, p.Runs(opt.tierOrQuick())))
		}
	}
	part := ch.Pick(w, "part")
	sub := m.Parts[part]
	if ext, ok := sub.(External); ok {
		// the child must replay the same stream including the part draw: it
		// re-draws it itself (see plat.RunJob), so hand the source over as is
		res := ext.Run(ch, opt)
		if res.Failed() {
			res.Signature = fmt.Sprintf("part%d/%s", part+1, res.Signature)
		}
		return res
	}
	res := sub.Run(ch, opt)
	if res.Failed() {
		res.Signature = fmt.Sprintf("part%d/%s", part+1, res.Signature)
	}
	return res
}

func (o Options) tierOrQuick() string {
	if o.Tier == "" {
		return "quick"
	}
	return o.Tier
}
