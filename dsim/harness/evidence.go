package harness

import (
	"encoding/json"
	"os"
	"path/filepath"
	"sort"
)

type evidence struct {
	h    Harness
	tier string
	seed uint64

	evaluations   int
	pairs         map[[2]uint64]bool
	configs       map[uint64]bool
	orders        map[uint64]bool
	events        uint64
	simTime       float64
	faults        map[string]uint64
	probes        map[string]uint64
	inconclusive  map[string]int
	samples       []any
	violations    int
	knownFindings []string
	wall          float64
	runMs         int64
	draws         int
}

func newEvidence(h Harness, tier string, seed uint64) *evidence {
	return &evidence{
		h: h, tier: tier, seed: seed,
		pairs: map[[2]uint64]bool{}, configs: map[uint64]bool{}, orders: map[uint64]bool{},
		faults: map[string]uint64{}, probes: map[string]uint64{}, inconclusive: map[string]int{},
	}
}

func (e *evidence) add(l workerLine) {
	r := l.Res
	if r.HarnessBug != "" {
		e.inconclusive["harness_bug"]++
		return
	}
	e.evaluations++
	e.runMs += l.Ms
	e.draws += r.Draws
	if r.Inconclusive != "" {
		e.inconclusive[r.Inconclusive]++
	}
	if r.Nontrivial && r.Inconclusive == "" {
		e.pairs[[2]uint64{r.ConfigDigest, r.OrderDigest}] = true
	}
	e.configs[r.ConfigDigest] = true
	e.orders[r.OrderDigest] = true
	e.events += r.Events
	e.simTime += r.SimTime
	for k, v := range r.Faults {
		e.faults[k] += v
	}
	for k, v := range r.Probes {
		e.probes[k] += v
	}
	if r.Sample != nil && len(e.samples) < 4 {
		e.samples = append(e.samples, map[string]any{"run_index": l.I, "verdict": verdict(r), "case": r.Sample})
	}
}

func verdict(r Result) string {
	if r.Failed() {
		return "violation " + r.Rule + " " + r.Signature
	}
	if r.Inconclusive != "" {
		return "inconclusive " + r.Inconclusive
	}
	return "held"
}

func (e *evidence) distinctNontrivial() int { return len(e.pairs) }

func sortedKeys(m map[string]uint64) []string {
	ks := make([]string, 0, len(m))
	for k := range m {
		ks = append(ks, k)
	}
	sort.Strings(ks)
	return ks
}

func (e *evidence) write() error {
	meta := e.h.Meta()
	assumptions := append([]string{}, meta.Assumptions...)
	// probes that stayed at zero are flagged
	if e.tier == "thorough" {
		for _, p := range meta.ExpectedProbes {
			if e.probes[p] == 0 {
				assumptions = append(assumptions, "WORKLOAD GAP: probe "+p+" stayed at zero in this thorough run")
			}
		}
	}
	probes := map[string]uint64{}
	for _, p := range meta.ExpectedProbes {
		probes[p] = e.probes[p]
	}
	for _, k := range sortedKeys(e.probes) {
		probes[k] = e.probes[k]
	}
	faults := map[string]uint64{}
	for _, k := range meta.FaultKinds {
		faults[k] = e.faults[k]
	}
	for _, k := range sortedKeys(e.faults) {
		faults[k] = e.faults[k]
	}
	rph := 0.0
	if e.wall > 0 {
		rph = float64(e.evaluations) / e.wall * 3600
	}
	samples := e.samples
	if len(samples) == 0 {
		samples = []any{"(no sample recorded)"}
	}
	doc := map[string]any{
		"property_id": e.h.ID(),
		"tier":        e.tier,
		"seed":        int64(e.seed & 0x7fffffffffffffff),
		"level":       "exploration",
		"coverage": map[string]any{
			"evaluations":            e.evaluations,
			"distinct_nontrivial":    e.distinctNontrivial(),
			"rule":                   meta.Rule,
			"samples":                samples,
			"runs_per_hour":          rph,
			"sim_time_covered_s":     e.simTime,
			"events_total":           e.events,
			"decisions_total":        e.draws,
			"faults_fired":           faults,
			"probes":                 probes,
			"configs_distinct":       len(e.configs),
			"interleavings_distinct": len(e.orders),
			"real_components":        meta.RealComponents,
			"stub_components":        meta.StubComponents,
			"inconclusive":           e.inconclusive,
			"known_findings_seen":    e.knownFindings,
			"harness_version":        e.h.Version(),
			"technique":              "deterministic simulation with fault injection: seeded search over schedules and fault sequences",
		},
		"assumptions": assumptions,
		"wall_s":      e.wall,
		"violations":  e.violations,
	}
	dir := filepath.Join(VerifDir, "evidence")
	if err := os.MkdirAll(dir, 0o755); err != nil {
		return err
	}
	b, err := json.MarshalIndent(doc, "", " ")
	if err != nil {
		return err
	}
	tmp := filepath.Join(dir, e.h.ID()+".json.tmp")
	if err := os.WriteFile(tmp, b, 0o644); err != nil {
		return err
	}
	return os.Rename(tmp, filepath.Join(dir, e.h.ID()+".json"))
}
