#!/usr/bin/env python3
"""Regenerates /verif/MANIFEST.json from the table below (kept valid at all times)."""
import json, subprocess

CLAIMED = {
 "C01": dict(
   text="Seeded deterministic simulation of whole platforms running the shipped workloads through their own Run()/Verify(): each run draws a workload from a table of 27 entries (every amd/benchmarks directory with a Verify that checks something; admissible parameter ranges established against the stock runner), its size/shape parameters (sizes that are not multiples of the work-group size included), input seed, architecture (gcn3 / cdna3 binaries), mode (emulation; timing on the shipped R9 Nano or MI300A, or on a reduced platform with drawn shader arrays, CUs, L2 size and DRAM banks), GPU set (1, 2, 4; plain or unified device), unified memory, and the order of same-time events (permuted in half of the timing runs); one simulation per process inside a synctest bubble. Oracle = the workload's own host reference (Verify, and the GPU-vs-CPU operator cross-check for the DNN layers), no crash, exact liveness. Genuine defects are recorded as known findings (stale first-level caches across kernels on timing platforms; page migration not wired on multi-GPU timing platforms) or repaired (fix: commits). Exploration, not proof.",
   note="Trusted: the table's admissible ranges (plat/benchtable.go lists what was excluded and why - each exclusion is itself a documented failure of the unmodified tree), synctest, the controller; canonical host schedule. A failed Verify on a run in which the stale-first-level-cache condition was observed on the caches' ports is reported under that named cause.",
   ref="6 (C01), 12"),
 "C02": dict(
   text="Seeded differential simulation: the same race-free program with the same inputs runs on an emulation platform and on a timing platform in one process - reduced R9 Nano / MI300A platforms with drawn shader arrays (1-4), CUs per array (1-4), L2 size, DRAM banks; the shipped R9 Nano and MI300A (register scoreboard on); same-time events permuted in 2 of 3 timing runs. Programs: generated kernels (kasm: drawn ALU mixes with data-dependent divergence, records at cache-line-unaligned addresses read with dword/x2/x4/byte/short loads, scalar loads, wait counts; LDS exchange through barriers; the id probe in both id conventions) and the shipped race-free workloads at small sizes in both architectures. Oracle: every live device buffer byte-identical (hook Context.VerifBuffers + MemCopyD2H) and, per wavefront, the identical sequence of executed instructions (emulator instruction hook vs timing-CU 'inst' tracing tasks), hence equal retired-instruction counts. One genuine defect repaired (fix: commit: sub-dword loads in the timing CU), one recorded (stale first-level caches across kernels). Exploration, not proof.",
   note="Trusted: generated programs are race-free by construction, shipped workloads by the table's RaceFree flag; instruction identity is the printed instruction; kasm self-checked with the repository's disassembler.",
   ref="6 (C02), 12"),
 "C05": dict(
   text="Seeded deterministic simulation with the host schedule as the explored dimension: each run executes one drawn workload (copies, copy kernels, queued and synchronous commands; emulation platforms and shipped r9nano/mi300a timing platforms with the DMA path) four times in fresh processes with the stock SerialEngine's event order - canonical host schedule, two different drawn host schedules of the real application/runAsync/runEngine goroutines (synctest + controlled scheduler), and one repetition under another GOMAXPROCS - and compares simulated times at every API return, final time, event count and device data. Decides: same schedule => identical across processes/core counts (R1), data identical across host schedules (R2b), times identical across host schedules (R2a). R2a is violated on the unchanged tree by a genuine defect that is recorded as a known finding (host timing leaks into the time at which the driver's tick is scheduled); R1 and R2b hold. Exploration, not proof.",
   note="Trusted: faithful engine mode equals sim.SerialEngine's order, synctest, the controller; one application thread. The parallel-engine clause is exercised by the tie-permuting runs of the other whole-platform checks. Reported metrics are represented by simulated times and event counts, not by the reporter's table.",
   ref="6 (C05), 12"),
 "C08": dict(
   text="Two seeded simulations per property. (1) Whole platforms (emulation with the gcn3 or cdna3 ALU, shipped r9nano and mi300a timing platforms; one GPU or a unified 2-4 GPU device) run an id-probe kernel assembled per geometry (kasm; every instruction checked with the repository's disassembler; V2/V3-style and V5-style id conventions): each lane derives its global coordinates from the hardware-initialised ids, increments count[cell] and stores its raw ids in an array padded beyond the grid; oracle: count is 1 on every grid cell and 0 on every padding cell, ids decode to the cell. (2) The real command processor with all three placement algorithms (partition included, through the verif hook) dispatches launches that carry work-group filters, as a unified multi-GPU launch does: every filter-selected work-group is mapped exactly once, none outside the filter, announced count = produced. Two genuine defects found and repaired (fix: commits: wavefront formation in partial work-groups, V5 id packing in the timing CU). Exploration, not proof.",
   note="Trusted: kasm (self-checked against the repository's disassembler and by a fixed self-test geometry per platform), synctest, the controller. Whole platforms use the round-robin algorithm their builders hard-code.",
   ref="6 (C08), 12"),
 "C09": dict(
   text="Seeded deterministic simulation of the real cp.CommandProcessor with its real dispatchers (1-8), all three placement algorithms (greedy/partition through the verif hook cp.VerifBuild) and the real shared CU resource pool, against stub compute units that declare finite drawn resources and complete work-groups in drawn order after drawn delays, and a scripted driver issuing overlapping launches; online oracle over the CU-facing and driver-facing port histories: every work-group coordinate mapped exactly once, placement inside capacity and disjoint from resident work-groups by an independent interval model, one LaunchKernelRsp per request after the last completion with the right id, resources returned (a final whole-CU probe kernel must be placeable), liveness. Exploration, not proof.",
   note="Trusted: akita ports as executed, the harness's stub CUs, interval model and oracle; stub CUs batch completions of one kernel only (cross-kernel batching is an emulation-CU behaviour examined on the whole platform); generated work-groups fit an empty CU by a conservative model.",
   ref="6 (C09)"),
 "C10": dict(
   text="Seeded histories of the public Driver memory API (Init, InitWithExistingPID, SelectGPU, CreateUnifiedGPU, AllocateMemory, AllocateUnifiedMemory, FreeMemory, Remap, Distribute) from several contexts/processes on small device memories, default allocator at page sizes 2^12-2^16 and buddy allocator (verif hook) at 4 KiB, with capacity exhaustion as the injected fault; after every call the real vm.PageTable is compared with a reference model (live pages mapped, page-aligned, inside the recorded device, pairwise disjoint, unrelated mappings unchanged, freed pages unmapped, in-capacity calls never crash, over-capacity calls fail with 'out of memory'). The schedule dimension is the interleaving of the contexts' calls (the allocator serialises on a mutex). Three genuine defects found and repaired (fix: commits), one recorded (buddy allocator aliasing). Exploration, not proof.",
   note="Trusted: akita vm.PageTable, the reference model; only valid calls are generated; buddy-allocator out-of-memory is treated as legal fragmentation; migration preparation is covered with C19's driver harness.",
   ref="6 (C10), 12"),
 "C11": dict(
   text="Seeded deterministic simulation of whole platforms - emulation (direct-storage copy path, 1-4 GPUs) and the shipped r9nano/mi300a timing platforms (DMA path through command processor, DMA engine, write-back caches and DRAM; 1-2 GPUs) - driven through the real driver API by one application thread under the goroutine controller's canonical schedule, same-time events permuted in half of the timing runs: drawn copy sequences (sub-ranges crossing page, cache-line and GPU boundaries, four element types, buffers distributed over GPUs) interleaved with copy kernels, some left in flight on another GPU; oracle = shadow byte array (every D2H and the final dump of every buffer, bytes outside the touched ranges included), liveness exact (deadlock classified by the pending driver command). One genuine defect found and repaired (flush answered after the copy), one recorded (direct-storage path on timing platforms ignores dirty caches). Exploration, not proof.",
   note="Trusted: synctest, the controller, the shadow model; one application thread, per-buffer queues; kernel ranges 4-byte aligned. Completion-before-subrequests on the DMA path is checked through data and liveness, not on the DMA port history.",
   ref="6 (C11), 12"),
 "C12": dict(
   text="Seeded deterministic simulation of the real driver with all three kinds of goroutine real (1-3 application goroutines, runAsync, runEngine) on emulation platforms (1-4 GPUs, plain and unified devices) and the shipped R9 Nano timing platform, inside a testing/synctest bubble under a controlled goroutine scheduler: every goroutine parks at yield points (driver hooks, between engine events) and the controller draws who runs next, one at a time; safety oracle from data (queued chains H2D/D2D-kernel/H2D/D2D-kernel/D2H/D2H prove FIFO order, visibility of predecessors' effects and that drain returns after completion; guard zones prove isolation), liveness oracle exact (every goroutine durably blocked with work unfinished = deadlock, classified by what is pending). Three genuine defects found and repaired (fix: commits: engine-exit race, lost wake-up - the pinned suite's intermittent TestTensor hang - and a dispatcher panic with concurrent kernels). Exploration, not proof; the race-detector clause is not decided by this check.",
   note="Trusted: testing/synctest's notion of durable blocking, the controller, yield points outside critical sections and engine events; faithful engine order. Data races (the property's last clause) are outside what the controlled scheduler decides.",
   ref="6 (C12), 12"),
 "C14": dict(
   text="Seeded deterministic simulation of the real timing compute unit inside a mini timing platform (R9 Nano-style GPU reduced to 1-2 compute units with its real caches, TLBs, ROBs, translators, DRAM, command processor and driver; same-time events permuted in half of the runs; one run in 6 on the emulator as reference) executing generated programs (kasm, checked with the repository's disassembler): LDS exchange across 1-16 wavefronts with 1-3 write/barrier/read/barrier rounds and optional early-exiting wavefronts, dependent uses behind s_waitcnt vmcnt(1)/vmcnt(0)/lgkmcnt(0) on sentinel-initialised registers, the empty kernel; 1-24 work-groups so that up to 40 wavefronts are resident on one unit. Oracles: values against the program's Go closure, barrier ordering on the per-wavefront issue trace, one WGCompletionMsg per MapWGReq, exact hang detection. One genuine defect found and repaired (fix: commit: early exit before a barrier). Exploration, not proof.",
   note="Trusted: kasm programs and closures (validated on the emulator runs), synctest, the controller; memory latencies are those of the real hierarchy (no adversarial memory stub), the wait-count rule is decided through values.",
   ref="6 (C14), 12"),
 "C15": dict(
   text="Seeded deterministic simulation of the real rob.ReorderBuffer between a scripted requester, an adversarial memory stub and a control agent over fault-injecting connections; online oracle over the complete port history (order, exactly-once, payload, forwarding, occupancy, flush semantics, liveness at quiescence). Exploration: a clean batch is evidence over the sampled (configuration, schedule, fault sequence) space, not proof.",
   note="Trusted: akita sim.Port/Buffer semantics, the harness's own stubs and oracle; links reliable and FIFO per pair (DESIGN 4.2); request classification around flush/restart as defined in DESIGN C15.",
   ref="6 (C15)"),
 "C16": dict(
   text="Seeded deterministic simulation of the real addresstranslator.Comp between a scripted requester, an adversarial translation service (several PIDs mapping one virtual page to different physical pages), one or two adversarial memories behind the component's own port mapper and a control agent, over fault-injecting connections; online oracle over the port history (physical address = own PID's page base + offset, payload unchanged, forwarded exactly once to the owning memory, answered exactly once with original id and memory's data, flush semantics, liveness). Exploration, not proof.",
   note="Trusted: akita ports and port mappers as executed, the harness's stubs and oracle; one page per access; links reliable and FIFO per pair; request classification around flush/restart as in C15.",
   ref="6 (C16)"),
 "C17": dict(
   text="Seeded deterministic simulation of the real simplebankedmemory.Comp under a swarm of configurations (banks, interleave, pipeline width/depth/latency, row tracking, buffer sizes, address converters, incl. the shipped MI300A parameter set) with 1-2 scripted requesters over a fault-injecting connection; oracle = flat byte-array model applied in arrival order (exactly-one response, per-byte read values, masked writes, final storage, liveness). One genuine defect found and repaired (fix: commit), one recorded as known finding (pipeline width>1). Exploration, not proof.",
   note="Trusted: akita ports/pipelining/storage as executed, the harness's stubs and model; accesses stay inside one 64-byte block (what caches issue), so overlapping accesses share a bank; known findings listed in known_findings.json are reported as KNOWN-FINDING, anything else is a VIOLATION.",
   ref="6 (C17), 12"),
 "C18": dict(
   text="Both parts of the property by seeded deterministic simulation. (a) Whole platforms: the same workload with the same inputs runs on one GPU and on 2 or 4 GPUs - as a unified device, with buffers distributed page-wise over a drawn subset of GPUs and the kernel launched on a drawn GPU, or split by the workload itself - on emulation and on timing platforms (shipped multi-GPU R9 Nano platform and reduced ones; real RDMA engines, PCIe model, caches; same-time events permuted in half of the timing runs); workloads: a generated gather kernel whose reads reach the whole (mostly remote) input, and the shipped element-wise workloads; oracle: every application buffer byte-identical to the one-GPU run (gather also against its Go model). (b) 2-4 real rdma.Comp joined by a fault-injecting fabric, each with an L1-side requester, an adversarial L2-side memory and a control agent; online oracle over the histories of all RDMA ports (owner routing, payload unchanged, forwarded/delivered/answered exactly once, drain acknowledged only with zero transactions in flight by the monitor's own count, traffic resumes after restart, liveness). Exploration, not proof.",
   note="Trusted: akita ports and address mappers as executed, the harness's stubs and oracle; links reliable and FIFO per pair; control agent follows the driver's protocol (restart only after drain acknowledgement); part (a): element-wise workloads (table flag), buffers distributed before data is copied in, driver-internal launch buffers (code, arguments, packet) excluded from the comparison because they hold pointers.",
   ref="6 (C18), 12"),
 "C19": dict(
   text="Both parts of the property by seeded deterministic simulation. (a) 2-4 real PageMigrationControllers (1-deep ports) with adversarial memories and control agents over a fault-injecting fabric; oracle: at the completion message and at quiescence the destination page equals the source page byte for byte, no other byte of any memory changed, one completion per request in order, liveness under back-pressure. (b) The real driver (page table, allocator, migration state machine) and the real akita MMU between 2-4 stub command processors (answering drain / shootdown / page copy - performed in a model memory - / GPU restart / RDMA restart after drawn latencies, in drawn order) and stub L2 TLBs issuing translation requests for unified, plain and second-process pages over fault-injecting links; oracle over the port histories and the real vm.PageTable: every translation answered exactly once, on the requesting device unless migrated before, physical page inside its device, disjoint, and holding the page's contents when answered; handshake order; one reply to the MMU per migration; unrelated mappings and contents unchanged; liveness. Two genuine defects found and repaired (fix: commits). Exploration, not proof.",
   note="Trusted: akita ports as executed, the harness's stubs and oracle; links reliable and FIFO per pair; source pages are not written during a run; translation requests carry page-aligned addresses. Page migration on whole timing platforms cannot run at all on this tree (known finding under C01: not wired), so part (b) stops at the command processors' ports.",
   ref="6 (C19), 12"),
 "C20": dict(
   text="Seeded simulation of the real nvidia driver/GPU/SM/sub-core components, built by the repo's public builders on the seeded engine (same-time event order permuted) over drawn platform shapes (1-6 devices, 1-8 SMs, 1-4 sub-cores, and the A100 shape), on generated ragged traces (incl. empty warps, all address-compression forms) that are written to disk and read back by the real trace reader / benchmark builder; oracle: conservation (warps, instructions), every unit idle and in its parent's free list and no kernel unreported when the engine runs dry, and field-by-field equality of the parsed and the serialised trace. Two genuine defects found and repaired (fix: commits). The schedule space is tie order only (all links are directconnections created inside the nvidia builders); the trace round trip is input generation. Exploration, not proof.",
   note="Trusted: akita engine contract (same-time events unordered), reflection reads of unexported counters, the trace generator; the opcode is not compared (the reader deliberately does not parse it).",
   ref="6 (C20), 12"),
}

NOT_APPLICABLE = [
 ("C03", "ALU.Run is a synchronous pure function of (instruction, architectural state): no schedule, clock, message or fault for a simulator to vary; needs an independent ISA model and input search (differential testing), not simulation."),
 ("C04", "Disassembler.Decode is a pure function of a byte slice; totality and encode/decode round trip are input-space properties with no interleaving or fault dimension (the one schedule-dependent decode path, timing-CU decode from a partially filled instruction buffer, is covered under C02)."),
 ("C06", "Lane-permutation equivariance / EXEC masking is a metamorphic relation on a single synchronous ALU call; nothing to schedule or fault."),
 ("C07", "Register files are sequential byte arrays accessed synchronously; conformance of a single-threaded object to a cell model has no concurrency, time or fault seam (its system-level content is exercised by C02 and C09)."),
 ("C13", "Code-object loading is a pure function of immutable file bytes read whole; no partial I/O, concurrency or timing involved."),
]
# properties planned but whose check is not built yet are listed as not claimed (with that reason) until it exists
PENDING = {
}

def hook_commits():
    try:
        out = subprocess.run(["git","-C","/repo","log","--format=%H %s"],capture_output=True,text=True).stdout
        return [l.split()[0] for l in out.splitlines() if " hook:" in l or l.split(" ",1)[1].startswith("hook:")]
    except Exception:
        return []

checks = []
for pid, c in sorted(CLAIMED.items()):
    checks.append({
      "property_id": pid,
      "quick_cmd": f"./check {pid} --tier quick",
      "thorough_cmd": f"./check {pid} --tier thorough",
      "evidence_file": f"/verif/evidence/{pid}.json",
      "replay_cmd_template": f"./check {pid} --replay {{path}}",
      "engine": "dsim",
      "level_claimed": {"category": "exploration", "text": c["text"], "design_ref": c["ref"]},
      "level_note": c["note"],
      "technique": "deterministic simulation with fault injection (seeded schedule/fault search, oracle over recorded history, minimised replay)",
    })
na = [{"property_id": p, "reason": r} for p, r in NOT_APPLICABLE]
for p, r in sorted(PENDING.items()):
    if p not in CLAIMED:
        na.append({"property_id": p, "reason": r})
na.sort(key=lambda x: x["property_id"])
m = {
 "version": 1,
 "setup_cmd": "cd /verif/dsim && cp /repo/go.sum go.sum && GOFLAGS=-mod=mod GOPROXY=off GOTOOLCHAIN=auto go build -tags verif -o bin/check ./cmd/check && GOFLAGS=-mod=mod GOPROXY=off GOTOOLCHAIN=auto go test -c -tags verif -o bin/plat.test ./plat",
 "hooks": {
   "guard": "verif",
   "enable": "go build/test -tags verif (Go build tag; files verif_on.go are //go:build verif, their no-op twins verif_off.go //go:build !verif)",
   "baseline_off_cmd": "cd /repo && GOFLAGS=-mod=mod go test -json -vet=off -count=1 -timeout 25m ./...",
   "source_commits": hook_commits(),
   "add_only": True,
 },
 "engines": [{"name": "dsim", "path": "/verif/dsim", "serves_properties": sorted(CLAIMED), "kind_free_text": "Go deterministic simulator: seeded akita engine (tie permutation), fault-injecting connections, adversarial stubs, port-history monitors, goroutine controller, batch driver with shrinking and replay"}],
 "checks": checks,
 "notes": "Every claimed property is decided by seeded deterministic simulation with fault injection (DESIGN.md). ./check rebuilds against /repo's working tree with -tags verif on every invocation. Exit 2 = build/watchdog/harness trouble, never a verdict.",
 "not_applicable": na,
}
json.dump(m, open("/verif/MANIFEST.json","w"), indent=1)
print("claimed:", sorted(CLAIMED), "not claimed:", [x["property_id"] for x in na])
