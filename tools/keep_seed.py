#!/usr/bin/env python3
"""keep_seed.py <name> <property> <worktree> <needs> <detected_by> [adapted_patch]  - store a confirmed seeded change under /verif/seeded/<name>/"""
import sys, os, shutil, json, subprocess
name, prop, wt, needs, detected = sys.argv[1:6]
adapted = sys.argv[6] if len(sys.argv) > 6 else None
d = f"/verif/seeded/{name}"
os.makedirs(d, exist_ok=True)
shutil.copy(f"{wt}/_deliver/patch.diff", f"{d}/patch.diff")
if os.path.exists(f"{wt}/_deliver/NOTES.md"): shutil.copy(f"{wt}/_deliver/NOTES.md", f"{d}/NOTES.md")
if os.path.isdir(f"{wt}/_deliver/demo"):
    shutil.rmtree(f"{d}/demo", ignore_errors=True); shutil.copytree(f"{wt}/_deliver/demo", f"{d}/demo")
for f in os.listdir(f"{wt}/_deliver"):
    if f.endswith(".go"): shutil.copy(f"{wt}/_deliver/{f}", f"{d}/{f}")
if adapted: shutil.copy(adapted, f"{d}/patch_adapted_to_fixed_tree.diff")
base = subprocess.run(["git","-C",wt,"rev-parse","HEAD"],capture_output=True,text=True).stdout.strip()
meta = {
 "breaks_property": prop,
 "base_commit": base,
 "needs_to_manifest": needs,
 "confirmed_by": "tools/confirm_seed.sh in the agent's scratch worktree: patch applies, go build ./... ok, 11 pinned test packages pass with the change, demo passes without the change and fails with it",
 "check_run": detected,
 "origin": "independent sub-agent given only the property text and a scratch worktree",
}
if adapted: meta["note"] = "patch.diff is against the commit before the fix: commit touched the same lines; patch_adapted_to_fixed_tree.diff is the same slip applied to the current tree and is what the check was run against"
json.dump(meta, open(f"{d}/meta.json","w"), indent=1)
print("kept", d)
