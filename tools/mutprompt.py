#!/usr/bin/env python3
"""Print the prompt given to an independent sub-agent that seeds a property-breaking change."""
import json, sys
pid, wt = sys.argv[1], sys.argv[2]
extra = sys.argv[3] if len(sys.argv) > 3 else ""
p = [json.loads(l) for l in open('/verif/properties.jsonl') if json.loads(l)['id'] == pid][0]
print(f"""You are working in a scratch git worktree of the Go project sarchlab/mgpusim (a GPU simulator built on the akita discrete-event framework) at {wt}. Work ONLY inside {wt}. Never read, list or write /verif or /repo (they are off limits), and do not look at other directories under /tmp/mut.

Environment: fully offline. On EVERY shell call first run `export GOFLAGS=-mod=mod GOPROXY=off` (do NOT set GOSUMDB=off). The go1.25 toolchain is selected automatically. `go build ./...` takes about 10-60 s. Most Ginkgo test suites in the repo do NOT compile at this commit (their gomock files are git-ignored) - do not try to repair them. The dependency akita is in the module cache at /root/go/pkg/mod/github.com/sarchlab/akita/v4@v4.9.0 (read-only). Always run possibly-hanging programs under `timeout 120`.

The property (a semantic guarantee users of the project rely on):

  id: {p['id']} - {p['title']}
  statement: {p['statement']}
  quantifier: {p['quantifier']['text']}
  where it lives: files {', '.join(p['anchors']['files'])}
  mechanisms: {json.dumps(p['anchors']['mechanism'])}
  observable at: {json.dumps(p['anchors'].get('observe_at'))}

YOUR TASK: produce ONE realistic change to the NON-TEST source code of the project that BREAKS this property, such that
 (a) the whole project still compiles: `go build ./...`;
 (b) the project's pinned tests still pass: `go test -vet=off -count=1 ./amd/benchmarks/dnn/gputensor ./amd/benchmarks/dnn/layers ./amd/benchmarks/dnn/tensor ./amd/bitops ./amd/emu/cdna3 ./amd/insts ./amd/kernels ./amd/timing/cp/internal/resource ./nvidia/benchmark ./nvidia/platform ./nvidia/tracereader` (takes ~10 s);
 (c) the change looks like a plausible slip a maintainer could make (a wrong condition, an off-by-one, a missed case, a stale piece of state, two statements in the wrong order, a counter updated in the wrong place, a refactoring that loses a detail) - not sabotage such as a panic or a hard-coded garbage value, and not a change of public API;
 (d) it needs something SPECIFIC to manifest: a particular interleaving or message timing, back-pressure or a fault/flush at a particular point, a multi-step sequence of operations, an unusual input or configuration, or two cooperating sites that each look fine alone. Ordinary default use (e.g. a default single-GPU run of a small sample benchmark) should NOT expose it at once. Prefer subtle over blatant.
{extra}
Keep the change small (typically 1-15 lines in 1-2 files). Do not modify any *_test.go file and do not touch go.mod/go.sum.

DELIVERABLES, all inside {wt}/_deliver/ (create it):
 1. patch.diff  - `git diff` of your source change only (must apply with `git apply` to a clean checkout of this commit; do not include _deliver or demo files in it).
 2. a demonstration: a self-contained Go test file or small main program (put it under {wt}/_deliver/demo/ as its own package inside the module, so it can import the project's packages - internal packages can only be imported from inside their parent tree, in which case place the demo file next to the code and copy it into _deliver too, saying where it must live) that FAILS (non-zero exit / failing test) WITH your change applied and PASSES on the unmodified code. It should drive the real code (not a re-implementation) and state which clause of the property is violated. It must terminate (use timeouts: a hang is a legitimate way to fail, but turn it into a failure after a bounded time).
 3. NOTES.md - what the change is, which clause of the property it breaks, exactly what is needed for it to manifest, the exact commands to run the demonstration, and the output you observed in both directions (with and without the change), plus the result of (a) and (b).

Verify all of it yourself in both directions before finishing (use `git stash` or `git apply -R` to switch). When you finish, leave the worktree with your change NOT applied (clean `git status` apart from _deliver/ and any demo file you had to place next to the code). Your final message should be a 5-line summary: what you changed, what it needs to manifest, and whether every verification step succeeded.""")
