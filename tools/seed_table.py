#!/usr/bin/env python3
"""Prints the markdown table of seeded changes from /verif/seeded/*/meta.json and patch.diff."""
import json, glob, re, os
print("| seed | site | needs | outcome (as recorded when it was run) |")
print("|------|------|-------|----------------------------------------|")
for d in sorted(glob.glob('/verif/seeded/*/')):
    name = d.rstrip('/').split('/')[-1]
    m = json.load(open(d + 'meta.json'))
    files = sorted(set(re.findall(r'^\+\+\+ b/(\S+)', open(d + 'patch.diff').read(), re.M)))
    site = ", ".join(f.replace('amd/', '') for f in files)
    cell = lambda s: s.replace('|', '/').replace('\n', ' ')
    print(f"| {name} | {cell(site)} | {cell(m['needs_to_manifest'])} | {cell(m['check_run'])} |")
