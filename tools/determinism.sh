#!/bin/bash
# usage: determinism.sh <ID> <runs> [seed]  - same seeds in separate processes under GOMAXPROCS 1/4/16 (x2 each); digests must agree
set -u
id=$1; n=$2; seed=${3:-777}
cd /verif/dsim && export GOFLAGS=-mod=mod GOPROXY=off && { go build -tags verif -o bin/check ./cmd/check && go test -c -tags verif -o bin/plat.test ./plat; } || exit 2
d=$(mktemp -d)
k=0
for gmp in 1 4 16 1 4 16; do
  k=$((k+1))
  GOMAXPROCS=$gmp ./bin/check $id --seed $seed --worker 0,1,$n 2>/dev/null | grep '^{"i"' | python3 -c '
import sys,json
for l in sys.stdin:
    d=json.loads(l); r=d["res"]
    print(d["i"], r.get("cfg"), r.get("ord"), r.get("rule",""), r.get("sig",""), r.get("ev"), r.get("draws"), r.get("inconclusive",""))
' > $d/out.$k &
done
wait
ok=0
for k in 2 3 4 5 6; do
  if ! diff -q $d/out.1 $d/out.$k >/dev/null; then echo "DIVERGENCE between process 1 and $k:"; diff $d/out.1 $d/out.$k | head -10; ok=1; fi
done
echo "determinism $id: $(wc -l < $d/out.1) runs x 6 processes (GOMAXPROCS 1/4/16 twice): $([ $ok = 0 ] && echo IDENTICAL || echo DIVERGED)"
rm -rf $d
exit $ok
