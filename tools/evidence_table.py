#!/usr/bin/env python3
"""Prints a markdown table of what the last run of each check covered (from /verif/evidence/*.json)."""
import json, glob
print("| id | tier | runs | wall s | runs/hour | sim events | distinct non-trivial | faults fired (kind: count) | known findings seen |")
print("|----|------|------|--------|-----------|------------|----------------------|---------------------------|---------------------|")
for f in sorted(glob.glob('/verif/evidence/*.json')):
    e = json.load(open(f)); c = e['coverage']
    runs = c.get('evaluations', 0); wall = e.get('wall_s', 0) or 0.001
    faults = ", ".join(f"{k}: {v}" for k, v in sorted(c.get('faults_fired', {}).items()) if v)
    print(f"| {e['property_id']} | {e.get('tier','')} | {runs} | {wall:.0f} | {int(runs/wall*3600)} | {c.get('events_total',0)} | {c.get('distinct_nontrivial',0)} | {faults} | {'; '.join(c.get('known_findings_seen') or []) or '-'} |")
