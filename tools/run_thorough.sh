#!/bin/bash
# usage: run_thorough.sh [seed] [ids...]   - thorough tier of every (or the given) property, sequentially; logs + evidence copies under scratch/thorough
seed=${1:-20260926}; shift
ids=${@:-C15 C16 C17 C20 C10 C09 C19 C14 C02 C12 C11 C18 C08 C05 C01}
mkdir -p /verif/scratch/thorough /verif/evidence/thorough
for id in $ids; do
  start=$(date +%s)
  /verif/check $id --tier thorough --seed $seed > /verif/scratch/thorough/$id.log 2>&1
  rc=$?
  cp /verif/evidence/$id.json /verif/evidence/thorough/$id.json 2>/dev/null
  echo "$id seed=$seed exit=$rc wall=$(( $(date +%s) - start ))s $(grep -a '^done' /verif/scratch/thorough/$id.log | tail -1)" >> /verif/scratch/thorough/SUMMARY.txt
done
