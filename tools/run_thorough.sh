#!/bin/bash
# usage: run_thorough.sh [seed] [ids...]   - thorough tier of every (or the given) property, sequentially; logs + evidence copies under scratch/thorough
root=$(cd "$(dirname "$0")/.." && pwd)
seed=${1:-20260926}; shift
ids=${@:-C15 C16 C17 C20 C10 C09 C19 C14 C02 C12 C11 C18 C08 C05 C01}
mkdir -p $root/scratch/thorough $root/evidence/thorough
for id in $ids; do
  start=$(date +%s)
  $root/check $id --tier thorough --seed $seed > $root/scratch/thorough/$id.log 2>&1
  rc=$?
  cp $root/evidence/$id.json $root/evidence/thorough/$id.json 2>/dev/null
  echo "$id seed=$seed exit=$rc wall=$(( $(date +%s) - start ))s $(grep -a '^done' $root/scratch/thorough/$id.log | tail -1)" >> $root/scratch/thorough/SUMMARY.txt
done
