#!/bin/bash
# usage: multiseed.sh "<seeds>" [ids...]  - quick tier of every property under several batch seeds; prints one line per run
root=$(cd "$(dirname "$0")/.." && pwd)
seeds=${1:-"1 2 3"}; shift
ids=${@:-C01 C02 C05 C08 C09 C10 C11 C12 C14 C15 C16 C17 C18 C19 C20}
for s in $seeds; do for id in $ids; do
  out=$(VERIF_SEED=$s $root/check $id --tier quick 2>&1); rc=$?
  echo "seed=$s $id exit=$rc $(echo "$out" | grep -a '^done' | tail -1 | cut -c1-160)"
  [ $rc != 0 ] && echo "$out" | grep -a "^violation\|UNREPRO\|HARNESS\|BUILD" | cut -c1-300
done; done
