#!/bin/bash
# usage: try_patch.sh <patch.diff> <ID> [check args...]   - apply to /repo, run the check, always revert
set -u
patch=$1; shift
exec 9>/repo/.git/verif-repolock; flock -x 9; export VERIF_HOLDS_LOCK=1
git -C /repo apply "$patch" || { echo "patch does not apply"; exit 3; }
trap 'git -C /repo checkout -- . ; git -C /repo status --short | head' EXIT
"$(dirname "$0")/../check" "$@"
echo "exit=$?"
