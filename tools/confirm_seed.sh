#!/bin/bash
# usage: confirm_seed.sh <worktree> [demo pkg path relative to worktree, default ./_deliver/demo/]
# Confirms an agent-delivered seeded change in its scratch worktree: patch applies, project builds, pinned tests pass,
# demo passes without the change and fails with it.
set -u
wt=$1; demo=${2:-./_deliver/demo/}
export GOFLAGS=-mod=mod GOPROXY=off
cd $wt || exit 3
git stash list >/dev/null
if [ -n "$(git status --short | grep -v '^??')" ]; then echo "worktree not clean"; git status --short; exit 3; fi
echo "== demo WITHOUT change"; timeout 600 go test -vet=off -count=1 $demo > /tmp/confirm_$(basename $wt)_without.log 2>&1; w=$?; tail -3 /tmp/confirm_$(basename $wt)_without.log
git apply _deliver/patch.diff || { echo "patch does not apply"; exit 3; }
echo "== build WITH change"; go build ./... ; b=$?
echo "== pinned tests WITH change (gputensor TestTensor is known to hang intermittently on the unmodified tree too: up to 3 attempts with a 150 s timeout)"
for attempt in 1 2 3; do
  go test -vet=off -count=1 -timeout 150s ./amd/benchmarks/dnn/gputensor ./amd/benchmarks/dnn/layers ./amd/benchmarks/dnn/tensor ./amd/bitops ./amd/emu/cdna3 ./amd/insts ./amd/kernels ./amd/timing/cp/internal/resource ./nvidia/benchmark ./nvidia/platform ./nvidia/tracereader > /tmp/confirm_$(basename $wt)_pinned.log 2>&1; p=$?
  [ $p = 0 ] && break
  grep -q "test timed out" /tmp/confirm_$(basename $wt)_pinned.log || break
  echo "   attempt $attempt timed out, retrying"
done
grep -v "^ok" /tmp/confirm_$(basename $wt)_pinned.log | grep -a "FAIL\|panic: test timed" | head -5
echo "== demo WITH change"; timeout 600 go test -vet=off -count=1 $demo > /tmp/confirm_$(basename $wt)_with.log 2>&1; d=$?; tail -5 /tmp/confirm_$(basename $wt)_with.log
git apply -R _deliver/patch.diff
echo "RESULT demo_without_exit=$w build_exit=$b pinned_exit=$p demo_with_exit=$d  => $([ $w = 0 ] && [ $b = 0 ] && [ $p = 0 ] && [ $d != 0 ] && echo CONFIRMED || echo NOT-CONFIRMED)"
