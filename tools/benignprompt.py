#!/usr/bin/env python3
"""Print the prompt for an independent sub-agent that produces a property-PRESERVING change (false-alarm probe)."""
import json, sys
pid, wt = sys.argv[1], sys.argv[2]
extra = sys.argv[3] if len(sys.argv) > 3 else ""
p = [json.loads(l) for l in open('/verif/properties.jsonl') if json.loads(l)['id'] == pid][0]
print(f"""You are working in a scratch git worktree of the Go project sarchlab/mgpusim (a GPU simulator built on the akita discrete-event framework) at {wt}. Work ONLY inside {wt}. Never read, list or write /verif or /repo (they are off limits), and do not look at other directories under /tmp/mut.

Environment: fully offline. On EVERY shell call first run `export GOFLAGS=-mod=mod GOPROXY=off` (do NOT set GOSUMDB=off). The go1.25 toolchain is selected automatically. `go build ./...` takes about 10-60 s. Most Ginkgo test suites in the repo do NOT compile at this commit (their gomock files are git-ignored) - do not try to repair them. The dependency akita is in the module cache at /root/go/pkg/mod/github.com/sarchlab/akita/v4@v4.9.0 (read-only). Always run possibly-hanging programs under `timeout 120`. `git stash` is shared between worktrees - do not use it; use `git apply` / `git apply -R`.

A semantic guarantee users of the project rely on:

  id: {p['id']} - {p['title']}
  statement: {p['statement']}
  quantifier: {p['quantifier']['text']}
  where it lives: files {', '.join(p['anchors']['files'])}
  mechanisms: {json.dumps(p['anchors']['mechanism'])}

YOUR TASK: produce ONE realistic, NON-TRIVIAL change to the non-test source code in the files above that a maintainer could plausibly make and that KEEPS THIS GUARANTEE TRUE - but that visibly changes INTERNAL behaviour which the guarantee does not constrain. Good candidates: a different (still legal) arbitration or service order among independent requests; processing more or fewer items per cycle; an extra pipeline stage or a changed latency; a different internal data structure (slice vs map with deterministic iteration, ring buffer vs slice); reordering of independent statements; different buffer sizes or batching; sending independent messages in another order; retrying differently under back-pressure; moving work between two stages of a tick. The change must NOT alter anything the statement above constrains (no lost/duplicated/reordered items where order is guaranteed, no changed data, no new hangs), must not change public API, and must not make runs nondeterministic.
{extra}
Requirements:
 (a) `go build ./...` succeeds;
 (b) the pinned tests pass: `go test -vet=off -count=1 ./amd/benchmarks/dnn/gputensor ./amd/benchmarks/dnn/layers ./amd/benchmarks/dnn/tensor ./amd/bitops ./amd/emu/cdna3 ./amd/insts ./amd/kernels ./amd/timing/cp/internal/resource ./nvidia/benchmark ./nvidia/platform ./nvidia/tracereader` (about 10 s; the gputensor suite has a rare unrelated teardown panic in akita's DBTracer - re-run once if you hit it);
 (c) at least one sample still verifies end to end with your change, e.g. `cd amd/samples/fir && go build && timeout 120 ./fir -timing -verify -length=2048` (and a multi-GPU or unified run if your change is on a multi-GPU path);
 (d) 5-40 changed lines in 1-2 files; no *_test.go, go.mod or go.sum changes.

DELIVERABLES in {wt}/_deliver/ (create it): patch.diff (`git diff` of the source change only; must apply with `git apply` to a clean checkout) and NOTES.md: what changes internally, and a careful argument, clause by clause, why the guarantee still holds. Leave the worktree with the change NOT applied. Final message: a 4-line summary.""")
